// Package c13: signatures on SP outbound messages verify under the certificate
// the SP publishes; a signature method that does not fit the key, or is unknown,
// is refused instead of yielding an unsigned or unverifiable message.
package c13

import (
	"crypto"
	"crypto/ecdsa"
	"crypto/rsa"
	_ "crypto/sha1"
	_ "crypto/sha256"
	_ "crypto/sha512"
	"crypto/x509"
	"encoding/asn1"
	"encoding/base64"
	"encoding/xml"
	"errors"
	"fmt"
	"io"
	"math/big"
	"net/http"
	"net/http/httptest"
	"net/url"
	"os"
	"strings"
	"testing"
	"time"

	"github.com/beevik/etree"
	"github.com/crewjam/saml"
	"github.com/crewjam/saml/samlsp"
	dsig "github.com/russellhaering/goxmldsig"
	"github.com/russellhaering/goxmldsig/etreeutils"
	"pgregory.net/rapid"

	"verif/harness/internal/fix"
	"verif/harness/internal/htmlw"
	"verif/harness/internal/pbt"
	"verif/harness/internal/samlwire"
	"verif/harness/internal/urlw"
	"verif/harness/internal/xgen"
)

// Case is one signing configuration and one message creation.
type Case struct {
	Key    string `json:"key"`    // fixture: rsa1024 sp rsa3072 rsa4096 spec p384 p521
	Method string `json:"method"` // SignatureMethod as configured (never "")
	Msg    string `json:"msg"`    // authn-redirect authn-post logoutreq-redirect logoutreq-post logoutresp-redirect logoutresp-post artifact

	RelayState string `json:"relay_state"`
	NameID     string `json:"name_id,omitempty"`
	RequestID  string `json:"request_id,omitempty"`
	Artifact   string `json:"artifact,omitempty"`

	EntityID string `json:"entity_id"`
	SSO      string `json:"sso"` // IdP SSO endpoint (both bindings), may carry a query
	SLO      string `json:"slo"` // IdP SLO endpoint (both bindings), may carry a query

	// Prior: messages created earlier on the SAME ServiceProvider value, each after setting its
	// SignatureMethod (a public field an application may change, e.g. when rotating algorithms).
	Prior []Prior `json:"prior,omitempty"`
	// AuthnContext / ForceAuthn: optional request content that must be inside the signed element.
	AuthnContext string `json:"authn_context,omitempty"` // "" | class ref
	ForceAuthn   string `json:"force_authn,omitempty"`   // "" | true | false

	// Msg "mw": the AuthnRequest is emitted by samlsp.Middleware (samlsp.New with SignRequest,
	// then the generated SignatureMethod), started through RequireAccount on a request without session.
	MWBinding  string `json:"mw_binding,omitempty"`  // Middleware.Binding: "" (unset) | redirect | post
	IDPOffers  string `json:"idp_offers,omitempty"`  // SSO endpoints in the IdP metadata: "" (both) | redirect | post
	MWTracker  string `json:"mw_tracker,omitempty"`  // "" stub returning RelayState | default (cookie tracker)
	MWArtifact bool   `json:"mw_artifact,omitempty"` // Options.UseArtifactResponse
	MWPath     string `json:"mw_path,omitempty"`     // protected URL the browser asked for

	// IDPLayout: "" = one IDPSSODescriptor; "later-descriptor" = a first descriptor that offers only
	// other bindings (at other locations) in front of the one that has the endpoints in use.
	IDPLayout string `json:"idp_layout,omitempty"`
	// RespLoc: ResponseLocation of the IdP's SSO / SLO / artifact endpoints: "" absent | same (equal to
	// Location) | other (a different URL).  Whatever destination the SP picks, its signature must
	// verify over exactly what it emits.
	RespLoc string `json:"resp_loc,omitempty"`
	// Fields of the ServiceProvider that feed Metadata(): Intermediates (0..2 certificates) and
	// MetaVary (bit 0: LogoutBindings redirect+POST, bit 1: AuthnNameIDFormat email, bit 2: MetadataValidDuration 1h).
	Intermediates int `json:"intermediates,omitempty"`
	MetaVary      int `json:"meta_vary,omitempty"`
	// IDPWant: optional attributes of the IdP's IDPSSODescriptors: WantAuthnRequestsSigned "" absent |
	// true | false (plus errorURL / protocolSupportEnumeration when set).  Signing configured on the SP
	// means signed messages whatever the IdP says it wants.
	IDPWant string `json:"idp_want,omitempty"`
}

// Prior is one earlier creation on the same SP.
type Prior struct {
	Method string `json:"method"`
	Msg    string `json:"msg"`
	// Key: the key pair (sp.Key + sp.Certificate) in force at that step ("" = the case's Key): a
	// rollover on the one long-lived ServiceProvider.  Each message must verify under the metadata
	// published at the moment it was made.
	Key string `json:"key,omitempty"`
}

var keys = []string{"rsa1024", "sp", "rsa3072", "rsa4096", "spec", "p384", "p521"}

var rsaMethods = []string{dsig.RSASHA1SignatureMethod, dsig.RSASHA256SignatureMethod, dsig.RSASHA384SignatureMethod, dsig.RSASHA512SignatureMethod}
var ecMethods = []string{dsig.ECDSASHA1SignatureMethod, dsig.ECDSASHA256SignatureMethod, dsig.ECDSASHA384SignatureMethod, dsig.ECDSASHA512SignatureMethod}

// unknownMethods: set, but none of the eight supported URIs.
var unknownMethods = []string{
	" ",
	"rsa-sha256",
	"http://www.w3.org/2000/09/xmldsig#dsa-sha1",
	"http://www.w3.org/2007/05/xmldsig-more#sha256-rsa-MGF1",
	"HTTP://WWW.W3.ORG/2001/04/XMLDSIG-MORE#RSA-SHA256",
	"http://www.w3.org/2001/04/xmldsig-more#rsa-sha256 ",
	"http://www.w3.org/2001/04/xmldsig-more#ecdsa-sha224",
	"http://www.w3.org/2000/09/xmldsig#hmac-sha1",
}

var msgs = []string{"authn-redirect", "authn-post", "logoutreq-redirect", "logoutreq-post", "logoutresp-redirect", "logoutresp-post", "artifact", "mw"}

var hashOf = map[string]crypto.Hash{
	dsig.RSASHA1SignatureMethod: crypto.SHA1, dsig.RSASHA256SignatureMethod: crypto.SHA256, dsig.RSASHA384SignatureMethod: crypto.SHA384, dsig.RSASHA512SignatureMethod: crypto.SHA512,
	dsig.ECDSASHA1SignatureMethod: crypto.SHA1, dsig.ECDSASHA256SignatureMethod: crypto.SHA256, dsig.ECDSASHA384SignatureMethod: crypto.SHA384, dsig.ECDSASHA512SignatureMethod: crypto.SHA512,
}

func isRSAKey(k string) bool { return fix.Get(k).RSA() != nil }

// viaOptions as Method: signing is configured the way samlsp users do it - samlsp.Options{SignRequest:
// true} and NO explicit SignatureMethod; the ServiceProvider (and Middleware) of the case are then
// built by samlsp.DefaultServiceProvider / samlsp.New, and the method is whatever that leaves in place.
const viaOptions = "(samlsp.Options.SignRequest)"

// expectation: "sign" (method fits the key), "refuse" (mismatch or unknown).
func expectation(c Case) string {
	if c.Method == viaOptions {
		return "sign" // "signing configured" = SignRequest: true, for every key the fixtures offer
	}
	for _, m := range rsaMethods {
		if c.Method == m {
			if isRSAKey(c.Key) {
				return "sign"
			}
			return "refuse"
		}
	}
	for _, m := range ecMethods {
		if c.Method == m {
			if !isRSAKey(c.Key) {
				return "sign"
			}
			return "refuse"
		}
	}
	return "refuse"
}

// ---------------------------------------------------------------- generators

var urlMeta = []string{"&", "=", "#", "+", "%", "?", ";", "/", " ", "\"", "'", "%20", "%26", "&b=c", "&SigAlg=x", "&Signature=AAAA", "&SAMLRequest=x", "<", ">", "~", "*", "é", "日本"}

func genRelay(t *rapid.T) string {
	switch rapid.IntRange(0, 7).Draw(t, "rsclass") {
	case 0:
		return ""
	case 1, 2:
		return rapid.StringMatching(`[A-Za-z0-9_.~-]{1,40}`).Draw(t, "rsplain")
	case 3, 4:
		n := rapid.IntRange(1, 5).Draw(t, "rsn")
		var sb strings.Builder
		for i := 0; i < n; i++ {
			sb.WriteString(rapid.StringMatching(`[a-zA-Z0-9]{0,5}`).Draw(t, "rsw"))
			sb.WriteString(rapid.SampledFrom(urlMeta).Draw(t, "rsm"))
		}
		return sb.String()
	case 5:
		return strings.Repeat(rapid.SampledFrom([]string{"a", "b&", "é"}).Draw(t, "rsunit"), rapid.IntRange(41, 150).Draw(t, "rslen"))
	default:
		return strings.ReplaceAll(xgen.Text().Draw(t, "rstext"), "\x00", "")
	}
}

func genEndpoint(t *rapid.T, label string) string {
	s := xgen.HTTPURL().Draw(t, label)
	if rapid.Bool().Draw(t, label+"hasq") {
		n := rapid.IntRange(1, 3).Draw(t, label+"n")
		var parts []string
		for i := 0; i < n; i++ {
			parts = append(parts, rapid.SampledFrom([]string{"tenant", "t", "idp", "a"}).Draw(t, label+"k")+"="+rapid.StringMatching(`([A-Za-z0-9_.~-]|%20|%26|%3D|\+){0,8}`).Draw(t, label+"v"))
		}
		s += "?" + strings.Join(parts, "&")
	}
	u, err := url.Parse(s)
	if err != nil {
		panic(err)
	}
	return u.String()
}

func gen(t *rapid.T) Case {
	c := Case{
		Key:        rapid.SampledFrom(keys).Draw(t, "key"),
		Msg:        rapid.SampledFrom(msgs).Draw(t, "msg"),
		RelayState: genRelay(t),
		SSO:        genEndpoint(t, "sso"),
		SLO:        genEndpoint(t, "slo"),
	}
	switch rapid.IntRange(0, 10).Draw(t, "methodclass") {
	case 10:
		c.Method = viaOptions
	case 0:
		c.Method = rapid.SampledFrom(unknownMethods).Draw(t, "unknown")
	case 1, 2: // the other family: mismatch
		if isRSAKey(c.Key) {
			c.Method = rapid.SampledFrom(ecMethods).Draw(t, "mismatch")
		} else {
			c.Method = rapid.SampledFrom(rsaMethods).Draw(t, "mismatch")
		}
	default:
		if isRSAKey(c.Key) {
			c.Method = rapid.SampledFrom(rsaMethods).Draw(t, "fit")
		} else {
			c.Method = rapid.SampledFrom(ecMethods).Draw(t, "fit")
		}
	}
	if rapid.Bool().Draw(t, "entityset") {
		c.EntityID = "urn:example:sp:" + rapid.StringMatching(`[a-z0-9&<>"' ]{1,8}`).Draw(t, "entity")
	}
	switch c.Msg {
	case "logoutreq-redirect", "logoutreq-post":
		c.NameID = xgen.Text().Draw(t, "nameid")
	case "logoutresp-redirect", "logoutresp-post":
		c.RequestID = xgen.Text().Draw(t, "reqid")
	case "artifact":
		c.Artifact = rapid.OneOf(rapid.StringMatching(`[A-Za-z0-9+/]{20,60}={0,2}`), xgen.TextNonEmpty()).Draw(t, "artifact")
	}
	if rapid.IntRange(0, 2).Draw(t, "hasprior") == 0 {
		all := append(append(append([]string{}, rsaMethods...), ecMethods...), unknownMethods...)
		n := rapid.IntRange(1, 3).Draw(t, "nprior")
		for i := 0; i < n; i++ {
			c.Prior = append(c.Prior, Prior{Method: rapid.SampledFrom(append(all, viaOptions)).Draw(t, "priormethod"), Msg: rapid.SampledFrom(msgs).Draw(t, "priormsg")})
		}
	}
	if rapid.IntRange(0, 2).Draw(t, "hasctx") == 0 {
		c.AuthnContext = rapid.SampledFrom([]string{"urn:oasis:names:tc:SAML:2.0:ac:classes:PasswordProtectedTransport", "urn:x:a&b<c>", "x"}).Draw(t, "ctx")
	}
	c.ForceAuthn = rapid.SampledFrom([]string{"", "", "true", "false"}).Draw(t, "force")
	c.IDPLayout = rapid.SampledFrom([]string{"", "", "later-descriptor"}).Draw(t, "idplayout")
	c.RespLoc = rapid.SampledFrom([]string{"", "", "same", "other", "other"}).Draw(t, "resploc")
	c.Intermediates = rapid.SampledFrom([]int{0, 0, 1, 2}).Draw(t, "intermediates")
	c.IDPWant = rapid.SampledFrom([]string{"", "", "true", "false", "false"}).Draw(t, "idpwant")
	for i := range c.Prior {
		if rapid.Bool().Draw(t, "priorrollover") {
			pk := rapid.SampledFrom(keys).Draw(t, "priorkey")
			c.Prior[i].Key = pk
			if c.Prior[i].Method != viaOptions && rapid.IntRange(0, 2).Draw(t, "priorfit") != 0 {
				if isRSAKey(pk) {
					c.Prior[i].Method = rapid.SampledFrom(rsaMethods).Draw(t, "priorfitm")
				} else {
					c.Prior[i].Method = rapid.SampledFrom(ecMethods).Draw(t, "priorfitm")
				}
			}
		}
	}
	c.MetaVary = rapid.IntRange(0, 7).Draw(t, "metavary")
	hasMW := c.Msg == "mw"
	for _, pr := range c.Prior {
		hasMW = hasMW || pr.Msg == "mw"
	}
	if hasMW {
		c.MWBinding = rapid.SampledFrom([]string{"", "", "redirect", "post"}).Draw(t, "mwbinding")
		c.IDPOffers = rapid.SampledFrom([]string{"", "redirect", "post", "post"}).Draw(t, "idpoffers")
		c.MWTracker = rapid.SampledFrom([]string{"", "default"}).Draw(t, "mwtracker")
		c.MWArtifact = rapid.Bool().Draw(t, "mwartifact")
		c.MWPath = rapid.SampledFrom([]string{"/", "/app/page?x=1&y=2", "/a%20b"}).Draw(t, "mwpath")
	}
	return c
}

// ---------------------------------------------------------------- running

func mustURL(s string) url.URL {
	u, err := url.Parse(s)
	if err != nil {
		panic(fmt.Sprintf("harness: %q: %v", s, err))
	}
	return *u
}

// intermediatesOf returns n certificates configured as the SP's chain (any certificates do: the
// library publishes them, it does not validate the chain).
func intermediatesOf(n int) []*x509.Certificate {
	var out []*x509.Certificate
	for _, name := range []string{"idp2", "attacker"}[:min(max(n, 0), 2)] {
		out = append(out, fix.Get(name).Cert)
	}
	return out
}

func buildSP(c Case) *saml.ServiceProvider {
	sp := buildSP0(c)
	sp.Intermediates = intermediatesOf(c.Intermediates)
	if c.MetaVary&1 != 0 {
		sp.LogoutBindings = []string{saml.HTTPRedirectBinding, saml.HTTPPostBinding}
	}
	if c.MetaVary&2 != 0 {
		sp.AuthnNameIDFormat = saml.EmailAddressNameIDFormat
	}
	if c.MetaVary&4 != 0 {
		sp.MetadataValidDuration = time.Hour
	}
	if c.AuthnContext != "" {
		sp.RequestedAuthnContext = &saml.RequestedAuthnContext{Comparison: "exact", AuthnContextClassRef: c.AuthnContext}
	}
	switch c.ForceAuthn {
	case "true", "false":
		b := c.ForceAuthn == "true"
		sp.ForceAuthn = &b
	}
	return sp
}

const artifactURL = "https://idp.example.org/artifact"

func buildSP0(c Case) *saml.ServiceProvider {
	k := fix.Get(c.Key)
	ep := func(binding, location, other string) saml.Endpoint {
		e := saml.Endpoint{Binding: binding, Location: location}
		switch c.RespLoc {
		case "same":
			e.ResponseLocation = location
		case "other":
			e.ResponseLocation = other
		}
		return e
	}
	real := saml.IDPSSODescriptor{
		SSODescriptor: saml.SSODescriptor{SingleLogoutServices: []saml.Endpoint{
			ep(saml.HTTPRedirectBinding, c.SLO, "https://idp.example.org/slo-response?via=redirect"), ep(saml.HTTPPostBinding, c.SLO, "https://idp.example.org/slo-response-post")}},
		SingleSignOnServices: []saml.Endpoint{
			ep(saml.HTTPRedirectBinding, c.SSO, "https://idp.example.org/sso-response"), ep(saml.HTTPPostBinding, c.SSO, "https://idp.example.org/sso-response-post")},
		ArtifactResolutionServices: []saml.Endpoint{ep(saml.SOAPBinding, artifactURL, "https://idp.example.org/artifact-response")},
	}
	switch c.IDPWant {
	case "true", "false":
		w := c.IDPWant == "true"
		real.WantAuthnRequestsSigned = &w
		real.ProtocolSupportEnumeration = "urn:oasis:names:tc:SAML:2.0:protocol"
		real.ErrorURL = "https://idp.example.org/error"
	}
	descs := []saml.IDPSSODescriptor{real}
	if c.IDPLayout == "later-descriptor" {
		wrong := func(b string) []saml.Endpoint {
			return []saml.Endpoint{{Binding: b, Location: "https://decoy.example/wrong"}}
		}
		descs = []saml.IDPSSODescriptor{{
			WantAuthnRequestsSigned:    real.WantAuthnRequestsSigned,
			SSODescriptor:              saml.SSODescriptor{SingleLogoutServices: wrong(saml.SOAPBinding)},
			SingleSignOnServices:       wrong(saml.HTTPArtifactBinding),
			ArtifactResolutionServices: wrong(saml.HTTPArtifactBinding),
		}, real}
	}
	return &saml.ServiceProvider{
		EntityID: c.EntityID, Key: k.Key, Certificate: k.Cert, SignatureMethod: c.Method,
		MetadataURL: mustURL("https://sp.example.com/saml/metadata"), AcsURL: mustURL("https://sp.example.com/saml/acs"), SloURL: mustURL("https://sp.example.com/saml/slo"),
		IDPMetadata: &saml.EntityDescriptor{EntityID: "https://idp.example.org/metadata", IDPSSODescriptors: descs},
	}
}

type outcome struct {
	url  *url.URL
	page []byte
	art  *saml.ArtifactResolve
	// soap: the bodies the SP actually sent to the artifact resolution service
	soap     [][]byte
	soapURLs []string
	err      error
	pan      any
	// snap: copy of the wire form (URL text / HTML) taken when the call returned
	snap string
	// the metadata the SP published at that moment: signing certificate, AuthnRequestsSigned, error
	cert       *x509.Certificate
	advertised bool
	certErr    error
	// mw: what the middleware answered
	status  int
	relay   string // relay state the tracker handed out ("" unknown)
	relayOK bool
}

func (o *outcome) wire() string {
	if o.url != nil {
		return o.url.String()
	}
	return string(o.page)
}

type fixedTracker struct{ relay string }

func (f fixedTracker) TrackRequest(http.ResponseWriter, *http.Request, string) (string, error) {
	return f.relay, nil
}
func (f fixedTracker) StopTrackingRequest(http.ResponseWriter, *http.Request, string) error {
	return nil
}
func (f fixedTracker) GetTrackedRequests(*http.Request) []samlsp.TrackedRequest { return nil }
func (f fixedTracker) GetTrackedRequest(*http.Request, string) (*samlsp.TrackedRequest, error) {
	return nil, http.ErrNoCookie
}

// parties: the ONE ServiceProvider value and the ONE Middleware all steps of a case act on.
type parties struct {
	sp *saml.ServiceProvider
	mw *samlsp.Middleware
	// the SignatureMethod samlsp's constructors left in place (only meaningful for viaOptions steps)
	defMethod, mwDefMethod string
	// key: the key pair the case (and so both constructors) started with; steps may roll it over
	key string
}

func usesOptions(c Case) bool {
	if c.Method == viaOptions {
		return true
	}
	for _, pr := range c.Prior {
		if pr.Method == viaOptions {
			return true
		}
	}
	return false
}

func optionsOf(c Case, md *saml.EntityDescriptor) samlsp.Options {
	k := fix.Get(c.Key)
	opts := samlsp.Options{EntityID: c.EntityID, URL: mustURL("https://sp.example.com/"), Key: k.Key, Certificate: k.Cert, IDPMetadata: md,
		SignRequest: true, ForceAuthn: c.ForceAuthn == "true", UseArtifactResponse: c.MWArtifact, Intermediates: intermediatesOf(c.Intermediates)}
	if c.MetaVary&1 != 0 {
		opts.LogoutBindings = []string{saml.HTTPRedirectBinding, saml.HTTPPostBinding}
	}
	if c.AuthnContext != "" {
		opts.RequestedAuthnContext = &saml.RequestedAuthnContext{Comparison: "exact", AuthnContextClassRef: c.AuthnContext}
	}
	return opts
}

// newParties builds the one ServiceProvider value of a case: a struct literal, or - when a step
// configures signing through samlsp.Options - what samlsp.DefaultServiceProvider returns.
func newParties(c Case) *parties {
	if !usesOptions(c) {
		return &parties{sp: buildSP(c), key: c.Key}
	}
	sp := samlsp.DefaultServiceProvider(optionsOf(c, buildSP0(c).IDPMetadata))
	return &parties{sp: &sp, defMethod: sp.SignatureMethod, key: c.Key}
}

func (p *parties) methodOf(c Case) string {
	if c.Method != viaOptions {
		return c.Method
	}
	if c.Msg == "mw" {
		return p.mwDefMethod
	}
	return p.defMethod
}

func offered(c Case, binding string) bool { return c.IDPOffers == "" || c.IDPOffers == binding }

func (p *parties) middleware(c Case) (*samlsp.Middleware, error) {
	if p.mw != nil {
		return p.mw, nil
	}
	c.Key = p.key // constructed once, with the key pair the case started with
	md := buildSP0(c).IDPMetadata
	for i := range md.IDPSSODescriptors {
		var sso []saml.Endpoint
		for _, e := range md.IDPSSODescriptors[i].SingleSignOnServices {
			switch e.Binding {
			case saml.HTTPRedirectBinding:
				if offered(c, "redirect") {
					sso = append(sso, e)
				}
			case saml.HTTPPostBinding:
				if offered(c, "post") {
					sso = append(sso, e)
				}
			default:
				sso = append(sso, e)
			}
		}
		md.IDPSSODescriptors[i].SingleSignOnServices = sso
	}
	opts := optionsOf(c, md)
	m, err := samlsp.New(opts)
	if err != nil {
		return nil, err
	}
	p.mwDefMethod = m.ServiceProvider.SignatureMethod
	switch c.MWBinding {
	case "redirect":
		m.Binding = saml.HTTPRedirectBinding
	case "post":
		m.Binding = saml.HTTPPostBinding
	}
	// the default tracker signs its cookie as ES256 / RS256 with the SP key: only P-256 and RSA keys can
	if c.MWTracker != "default" || c.Key == "p384" || c.Key == "p521" {
		m.RequestTracker = fixedTracker{c.RelayState}
	}
	p.mw = m
	return m, nil
}

// capture records what the SP sends to the IdP's artifact resolution endpoint.
type capture struct {
	bodies [][]byte
	urls   []string
}

func (c *capture) RoundTrip(r *http.Request) (*http.Response, error) {
	b, _ := io.ReadAll(r.Body)
	c.bodies = append(c.bodies, b)
	c.urls = append(c.urls, r.URL.String())
	return nil, errors.New("harness: request captured, no IdP behind this transport")
}

func run(p *parties, c Case) (o outcome) {
	defer func() {
		if r := recover(); r != nil {
			o.pan = r
		}
		o.snap = strings.Clone(o.wire())
	}()
	sp := p.sp
	k := fix.Get(c.Key)
	sp.Key, sp.Certificate = k.Key, k.Cert
	sp.SignatureMethod = p.methodOf(c)
	sp.HTTPClient = nil
	switch c.Msg {
	case "mw":
		m, err := p.middleware(c)
		if err != nil {
			o.err = fmt.Errorf("harness: samlsp.New: %v", err)
			return o
		}
		m.ServiceProvider.SignatureMethod = p.methodOf(c)
		m.ServiceProvider.Key, m.ServiceProvider.Certificate = k.Key, k.Cert
		path := c.MWPath
		if path == "" {
			path = "/"
		}
		w := httptest.NewRecorder()
		r := httptest.NewRequest("GET", "https://sp.example.com"+path, nil)
		m.RequireAccount(http.HandlerFunc(func(w http.ResponseWriter, _ *http.Request) { w.WriteHeader(http.StatusTeapot) })).ServeHTTP(w, r)
		o.status = w.Code
		if _, stub := m.RequestTracker.(fixedTracker); stub {
			o.relay, o.relayOK = c.RelayState, true
		} else {
			for _, ck := range w.Result().Cookies() {
				if strings.HasPrefix(ck.Name, "saml_") {
					o.relay, o.relayOK = strings.TrimPrefix(ck.Name, "saml_"), true
				}
			}
		}
		switch {
		case w.Code == http.StatusFound:
			u, err := url.Parse(w.Header().Get("Location"))
			if err != nil {
				o.err = fmt.Errorf("Location header does not parse: %v", err)
			}
			o.url = u
		case w.Code == http.StatusOK:
			o.page = append([]byte(nil), w.Body.Bytes()...)
		default:
			o.err = fmt.Errorf("HTTP status %d: %s", w.Code, strings.TrimSpace(w.Body.String()))
		}
	case "authn-redirect":
		o.url, o.err = sp.MakeRedirectAuthenticationRequest(c.RelayState)
	case "authn-post":
		o.page, o.err = sp.MakePostAuthenticationRequest(c.RelayState)
	case "logoutreq-redirect":
		o.url, o.err = sp.MakeRedirectLogoutRequest(c.NameID, c.RelayState)
	case "logoutreq-post":
		o.page, o.err = sp.MakePostLogoutRequest(c.NameID, c.RelayState)
	case "logoutresp-redirect":
		o.url, o.err = sp.MakeRedirectLogoutResponse(c.RequestID, c.RelayState)
	case "logoutresp-post":
		o.page, o.err = sp.MakePostLogoutResponse(c.RequestID, c.RelayState)
	case "artifact":
		o.art, o.err = sp.MakeArtifactResolveRequest(c.Artifact)
		// ... and the real emission: an artifact arriving at the ACS makes the SP
		// send a SOAP ArtifactResolve through its HTTP client.
		cp := &capture{}
		sp.HTTPClient = &http.Client{Transport: cp}
		r := httptest.NewRequest("POST", "https://sp.example.com/saml/acs", nil)
		r.Form = url.Values{"SAMLart": {c.Artifact}}
		_, _ = sp.ParseResponse(r, []string{"id-0"})
		o.soap, o.soapURLs = cp.bodies, cp.urls
	default:
		o.err = fmt.Errorf("harness: unknown message kind %q", c.Msg)
	}
	return o
}

// publishedCert returns the signing certificate of the SP's published metadata
// (after a trip through its XML form) and whether AuthnRequestsSigned is advertised.
func publishedCert(sp *saml.ServiceProvider) (*x509.Certificate, bool, error) {
	buf, err := xml.Marshal(sp.Metadata())
	if err != nil {
		return nil, false, err
	}
	var md saml.EntityDescriptor
	if err := xml.Unmarshal(buf, &md); err != nil {
		return nil, false, err
	}
	if len(md.SPSSODescriptors) != 1 {
		return nil, false, fmt.Errorf("%d SPSSODescriptors", len(md.SPSSODescriptors))
	}
	d := md.SPSSODescriptors[0]
	adv := d.AuthnRequestsSigned != nil && *d.AuthnRequestsSigned
	var certs []*x509.Certificate
	for _, kd := range d.KeyDescriptors {
		if kd.Use != "signing" {
			continue
		}
		for _, xc := range kd.KeyInfo.X509Data.X509Certificates {
			der, err := base64.StdEncoding.DecodeString(strings.Join(strings.Fields(xc.Data), ""))
			if err != nil {
				return nil, adv, fmt.Errorf("published signing certificate is not base64: %v", err)
			}
			// A relying party takes THE certificate of the element: the first DER value in it.
			// (With Intermediates the library appends further certificates to the same element;
			// what follows the first certificate is not judged here.)
			var first asn1.RawValue
			if _, err := asn1.Unmarshal(der, &first); err != nil {
				return nil, adv, fmt.Errorf("published signing certificate is not DER: %v", err)
			}
			cert, err := x509.ParseCertificate(first.FullBytes)
			if err != nil {
				return nil, adv, fmt.Errorf("published signing certificate does not parse: %v", err)
			}
			certs = append(certs, cert)
		}
	}
	if len(certs) != 1 {
		return nil, adv, fmt.Errorf("metadata publishes %d signing certificates, want 1", len(certs))
	}
	return certs[0], adv, nil
}

// verifyDetached checks sig over msg with the stdlib only.
func verifyDetached(cert *x509.Certificate, h crypto.Hash, msg, sig []byte) error {
	hh := h.New()
	hh.Write(msg)
	digest := hh.Sum(nil)
	switch pub := cert.PublicKey.(type) {
	case *rsa.PublicKey:
		return rsa.VerifyPKCS1v15(pub, h, digest, sig)
	case *ecdsa.PublicKey:
		if ecdsa.VerifyASN1(pub, digest, sig) {
			return nil
		}
		n := (pub.Curve.Params().BitSize + 7) / 8
		if len(sig) == 2*n { // raw r || s, as XML-DSig writes ECDSA values
			r, s := new(big.Int).SetBytes(sig[:n]), new(big.Int).SetBytes(sig[n:])
			if ecdsa.Verify(pub, digest, r, s) {
				return nil
			}
		}
		return fmt.Errorf("ECDSA signature (%d bytes) verifies neither as DER nor as r||s", len(sig))
	}
	return fmt.Errorf("unsupported public key %T", cert.PublicKey)
}

func needsEscaping(s string) bool {
	for i := 0; i < len(s); i++ {
		c := s[i]
		if !(c >= 'a' && c <= 'z' || c >= 'A' && c <= 'Z' || c >= '0' && c <= '9' || c == '-' || c == '_' || c == '.' || c == '~') {
			return true
		}
	}
	return false
}

// checkRedirectSignature: the query must contain, contiguously,
// SAMLRequest=..[&RelayState=..]&SigAlg=..&Signature=.. and the signature must
// verify over exactly the octets from "SAMLRequest=" up to "&Signature=".
func checkRedirectSignature(c Case, cert *x509.Certificate, wire string, anyRelay bool) (msg string, relayShaped bool) {
	w := urlw.Split(wire)
	ps, err := urlw.ParseQuery(w.RawQuery, true)
	if err != nil {
		return fmt.Sprintf("redirect query does not decode: %v\n  query: %q", err, w.RawQuery), needsEscaping(c.RelayState)
	}
	idx := func(name string) []int {
		var out []int
		for i, p := range ps {
			if p.Key == name {
				out = append(out, i)
			}
		}
		return out
	}
	req, alg, sig := idx("SAMLRequest"), idx("SigAlg"), idx("Signature")
	if len(req) != 1 || len(alg) != 1 || len(sig) != 1 {
		return fmt.Sprintf("redirect query has %d SAMLRequest, %d SigAlg, %d Signature parameters (want 1 each) before any fragment\n  url: %q", len(req), len(alg), len(sig), wire), needsEscaping(c.RelayState)
	}
	between := ps[req[0]+1 : max(alg[0], req[0]+1)]
	switch {
	case alg[0] < req[0] || sig[0] != alg[0]+1:
		return fmt.Sprintf("parameters are not in the order SAMLRequest[,RelayState],SigAlg,Signature\n  query: %q", w.RawQuery), needsEscaping(c.RelayState)
	case anyRelay && (len(between) == 0 || (len(between) == 1 && between[0].Key == "RelayState")):
		// the relay state was chosen by the library's own tracker and could not be learnt from the cookie
	case c.RelayState == "" && len(between) != 0,
		c.RelayState != "" && !(len(between) == 1 && between[0].Key == "RelayState" && between[0].Value == c.RelayState):
		var names []string
		for _, p := range between {
			names = append(names, p.RawKey+"="+p.RawValue)
		}
		return fmt.Sprintf("between SAMLRequest and SigAlg the query has %q; the signed string must be SAMLRequest=..[&RelayState=<the relay state %q, escaped>]&SigAlg=..\n  query: %q", names, c.RelayState, w.RawQuery), true
	}
	if ps[alg[0]].Value != c.Method {
		return fmt.Sprintf("SigAlg is %q, configured %q", ps[alg[0]].Value, c.Method), false
	}
	signed := w.RawQuery[ps[req[0]].Start:ps[alg[0]].End]
	if !strings.HasPrefix(w.RawQuery[ps[alg[0]].End:], "&Signature=") {
		return fmt.Sprintf("SigAlg is not directly followed by &Signature=\n  query: %q", w.RawQuery), false
	}
	sigBytes, err := samlwire.B64(ps[sig[0]].Value)
	if err != nil {
		return fmt.Sprintf("Signature parameter is not base64: %v", err), false
	}
	if err := verifyDetached(cert, hashOf[c.Method], []byte(signed), sigBytes); err != nil {
		pre := w.RawQuery[:ps[req[0]].Start]
		return fmt.Sprintf("the Signature does not verify under the published certificate over exactly %q... (%d octets from \"SAMLRequest=\" up to \"&Signature=\"): %v\n  octets in front of SAMLRequest in the query: %q\n  query: %q",
			trunc(signed, 60), len(signed), err, pre, trunc(w.RawQuery, 400)), false
	}
	// the payload itself must decode (the signature is over something meaningful)
	if _, err := samlwire.RedirectPayload(ps[req[0]].Value); err != nil {
		return "SAMLRequest does not decode: " + err.Error(), false
	}
	return "", false
}

func trunc(s string, n int) string {
	if len(s) > n {
		return s[:n] + "..."
	}
	return s
}

// verifyEnveloped: a fresh validation context that trusts only the published
// certificate must validate the element as a receiver parses it from the wire.
func verifyEnveloped(c Case, cert *x509.Certificate, xmlBytes []byte, wantRoot string) string {
	doc := etree.NewDocument()
	if err := doc.ReadFromBytes(xmlBytes); err != nil || doc.Root() == nil {
		return fmt.Sprintf("emitted message is not well-formed XML: %v", err)
	}
	el := doc.Root()
	if wantRoot == "ArtifactResolve@soap" {
		body := doc.Root().FindElement("./Body/ArtifactResolve")
		if body == nil {
			return "SOAP envelope has no Body/ArtifactResolve"
		}
		nsctx, err := etreeutils.NSBuildParentContext(body)
		if err != nil {
			return "harness: " + err.Error()
		}
		if el, err = etreeutils.NSDetatch(nsctx, body); err != nil {
			return "harness: " + err.Error()
		}
		wantRoot = "ArtifactResolve"
	}
	if el.Tag != wantRoot {
		return fmt.Sprintf("emitted root is <%s>, want <%s>", el.Tag, wantRoot)
	}
	var sigs []*etree.Element
	for _, ch := range el.ChildElements() {
		if ch.Tag == "Signature" {
			sigs = append(sigs, ch)
		}
	}
	if len(sigs) != 1 {
		return fmt.Sprintf("signing is configured (%s) but the emitted <%s> carries %d Signature children", c.Method, el.Tag, len(sigs))
	}
	if sm := sigs[0].FindElement("./SignedInfo/SignatureMethod"); sm == nil || sm.SelectAttrValue("Algorithm", "") != c.Method {
		got := "<absent>"
		if sm != nil {
			got = sm.SelectAttrValue("Algorithm", "")
		}
		return fmt.Sprintf("SignatureMethod Algorithm is %q, configured %q", got, c.Method)
	}
	ctx := dsig.NewDefaultValidationContext(&dsig.MemoryX509CertificateStore{Roots: []*x509.Certificate{cert}})
	ctx.IdAttribute = "ID"
	ctx.Clock = dsig.NewFakeClockAt(fix.Epoch)
	var verr error
	var pan any
	var out *etree.Element
	func() {
		defer func() { pan = recover() }()
		out, verr = ctx.Validate(el)
	}()
	if pan != nil {
		return fmt.Sprintf("validation of the emitted <%s> panics: %v", el.Tag, pan)
	}
	if verr != nil {
		return fmt.Sprintf("the enveloped signature on the emitted <%s> does not verify under the published certificate: %v\n  xml: %s", el.Tag, verr, trunc(string(xmlBytes), 1500))
	}
	if out == nil || out.SelectAttrValue("ID", "") != el.SelectAttrValue("ID", "") {
		return "validation returned another element than the root"
	}
	return ""
}

func payloadOfPage(page []byte, field string) ([]byte, string) {
	doc, err := htmlw.Parse(page)
	if err != nil {
		return nil, "POST page does not parse: " + err.Error()
	}
	forms := htmlw.Forms(doc)
	if len(forms) != 1 {
		return nil, fmt.Sprintf("POST page has %d forms", len(forms))
	}
	v := forms[0].Field(field)
	if len(v) != 1 {
		return nil, fmt.Sprintf("form has %d %s fields", len(v), field)
	}
	b, err := samlwire.B64(v[0])
	if err != nil {
		return nil, field + " is not base64: " + err.Error()
	}
	return b, ""
}

func payloadOfURL(wire, param string) ([]byte, string) {
	w := urlw.Split(wire)
	ps, err := urlw.ParseQuery(w.RawQuery, true)
	if err != nil {
		return nil, "redirect query does not decode: " + err.Error()
	}
	v := urlw.Get(ps, param)
	if len(v) != 1 {
		return nil, fmt.Sprintf("redirect query has %d %s parameters", len(v), param)
	}
	b, err := samlwire.RedirectPayload(v[0])
	if err != nil {
		return nil, param + " does not decode: " + err.Error()
	}
	return b, ""
}

func fail(classes []string, f string, a ...any) pbt.Result {
	return pbt.Result{Err: fmt.Sprintf(f, a...), NonTrivial: true, Classes: classes}
}

func check(c Case) pbt.Result {
	if c.Method == "" || (c.Msg == "artifact" && c.Artifact == "") {
		return pbt.Result{Skip: true} // signing not configured / no artifact: outside the property
	}
	exp := expectation(c)
	keyClass := "key:" + c.Key
	methodClass := "method:unknown"
	if c.Method == viaOptions {
		methodClass = "method:samlsp-default"
	}
	if h, ok := hashOf[c.Method]; ok {
		fam := "rsa"
		if strings.Contains(c.Method, "ecdsa") {
			fam = "ecdsa"
		}
		methodClass = fmt.Sprintf("method:%s-%s", fam, strings.ToLower(strings.ReplaceAll(h.String(), "-", "")))
	}
	classes := []string{"expect:" + exp, keyClass, methodClass, "msg:" + c.Msg}
	ep := c.SLO
	if strings.HasPrefix(c.Msg, "authn") {
		ep = c.SSO
	}
	hasQuery := strings.Contains(ep, "?") && c.Msg != "artifact"
	if hasQuery {
		classes = append(classes, "endpoint:query")
	}
	nontrivial := exp == "refuse" || hasQuery || needsEscaping(c.RelayState)

	// Text-position contents (name ID, artifact) range over all XML strings.
	if strings.ContainsRune(c.NameID+c.Artifact, '\r') {
		classes = append(classes, "content:CR-in-text")
		if os.Getenv("VERIF_EXCLUDE_XMLCR") == "1" {
			return pbt.Result{Classes: append(classes, "excluded:xml-cr")}
		}
	}
	// Attribute-position contents (the request ID in InResponseTo): literal TAB / LF /
	// CR in an attribute value are subject to XML attribute-value normalisation in the
	// receiver; request IDs are xs:NCName values, the property does not speak about
	// white space inside them -> counted, not judged.
	// The same holds for the entity ID, an xs:anyURI that LogoutRequest also writes
	// into the SPNameQualifier attribute.
	if (strings.HasPrefix(c.Msg, "logoutresp") && strings.ContainsAny(c.RequestID, "\t\n\r")) || strings.ContainsAny(c.EntityID, "\t\n\r") {
		return pbt.Result{Classes: append(classes, "dontcare:attr-whitespace")}
	}

	// ---- all creations first, on ONE ServiceProvider / Middleware value; nothing is judged yet
	p := newParties(c)
	type step struct {
		c Case
		o outcome
	}
	var steps []step
	// publish: what a relying party fetching the SP's metadata right now would get
	publish := func(sc Case, o *outcome) {
		if expectation(sc) != "sign" {
			return
		}
		sp := p.sp
		if sc.Msg == "mw" && p.mw != nil {
			sp = &p.mw.ServiceProvider
		}
		func() {
			defer func() {
				if r := recover(); r != nil {
					o.certErr = fmt.Errorf("Metadata() panics: %v", r)
				}
			}()
			o.cert, o.advertised, o.certErr = publishedCert(sp)
		}()
	}
	rollover := false
	for _, pr := range c.Prior {
		pc := c
		pc.Method, pc.Msg = pr.Method, pr.Msg
		if pr.Key != "" && pr.Method != viaOptions {
			pc.Key = pr.Key
			rollover = rollover || pr.Key != c.Key
		}
		if pc.Artifact == "" {
			pc.Artifact = "AAQAAMFbLinlXaCM+FIxiDwGOLAy2T71gbpO7ZhNzAgEANlB90ECfpNEVLg="
		}
		st := step{c: pc, o: run(p, pc)}
		publish(pc, &st.o)
		steps = append(steps, st)
	}
	if rollover {
		classes = append(classes, "key-rollover")
	}
	if len(c.Prior) > 0 {
		classes = append(classes, "sequence-on-one-sp")
		nontrivial = true
	}
	if c.AuthnContext != "" || c.ForceAuthn != "" {
		classes = append(classes, "request-options")
	}
	last := step{c: c, o: run(p, c)}
	publish(c, &last.o)
	steps = append(steps, last)
	for _, st := range steps {
		if st.c.Msg == "mw" {
			classes = append(classes, "mw:binding="+c.MWBinding+",idp-offers="+c.IDPOffers)
			if c.MWTracker == "default" {
				classes = append(classes, "mw:default-tracker")
			}
			break
		}
	}

	// ---- every result is judged now, with the method that was in force when it was created
	for i := range steps {
		st := &steps[i]
		where := ""
		if len(steps) > 1 {
			where = fmt.Sprintf("step %d of %d: ", i+1, len(steps))
		}
		if st.o.wire() != st.o.snap {
			return fail(classes, "%s%s: the value returned by this call changed while later messages were created\n  at creation: %q\n  now:         %q", where, st.c.Msg, trunc(st.o.snap, 600), trunc(st.o.wire(), 600))
		}
		msg, excluded := judge(p, st.c, st.o)
		if excluded != "" {
			return pbt.Result{Classes: append(classes, excluded)}
		}
		if msg != "" {
			return fail(classes, "%s%s", where, msg)
		}
	}
	if exp == "sign" {
		classes = append(classes, "verified")
	}
	if exp == "refuse" {
		nontrivial = true
	}
	return pbt.Result{NonTrivial: nontrivial, Classes: classes}
}

// judge applies the oracle to one creation.  It returns a violation text, or the
// name of an exclusion class (development switches), or two empty strings.
func judge(p *parties, c Case, o outcome) (msg string, excluded string) {
	exp := expectation(c)
	if c.Method == viaOptions {
		// judged under the method the constructor left in place; "" (or a method that does not fit
		// the key) then shows as what it is: no signing key published, unsigned messages, errors
		c.Method = p.methodOf(c)
	}
	if o.pan != nil {
		return fmt.Sprintf("%s with key %s and method %q panics: %v", c.Msg, c.Key, c.Method, o.pan), ""
	}
	hasQuery := strings.Contains(c.SSO, "?") && (c.Msg == "authn-redirect" || c.Msg == "mw")
	if exp == "refuse" {
		produced := o.url != nil || len(o.page) > 0 || o.art != nil || len(o.soap) > 0
		if o.err == nil {
			return fmt.Sprintf("%s: method %q does not fit key %s (or is unknown) but no error is returned (message produced: %v)", c.Msg, c.Method, c.Key, produced), ""
		}
		if produced {
			return fmt.Sprintf("%s: method %q is refused (%v) but a message is returned as well", c.Msg, c.Method, o.err), ""
		}
		return "", ""
	}
	sp := p.sp
	if c.Msg == "mw" {
		// a configured binding the IdP does not offer is a configuration error: refusing is fine
		if o.err != nil && ((c.MWBinding == "redirect" && !offered(c, "redirect")) || (c.MWBinding == "post" && !offered(c, "post"))) {
			return "", ""
		}
		if p.mw != nil {
			sp = &p.mw.ServiceProvider
		}
	}
	if o.err != nil {
		return fmt.Sprintf("%s: method %q fits key %s but creation fails: %v", c.Msg, c.Method, c.Key, o.err), ""
	}
	_ = sp
	cert, advertised, err := o.cert, o.advertised, o.certErr
	if err == nil && cert == nil {
		err = fmt.Errorf("harness: metadata was not fetched for this step")
	}
	if err != nil {
		return fmt.Sprintf("published metadata: %v", err), ""
	}
	if !advertised {
		return "signing is configured but the published metadata does not say AuthnRequestsSigned=true", ""
	}

	redirect := func(cc Case, anyRelay bool) (string, string) {
		m, relayShaped := checkRedirectSignature(cc, cert, o.url.String(), anyRelay)
		if m != "" && relayShaped && os.Getenv("VERIF_EXCLUDE_RELAYSTATE_UNESCAPED") == "1" {
			return "", "excluded:relaystate-unescaped"
		}
		if m != "" && hasQuery && os.Getenv("VERIF_EXCLUDE_REDIRECT_QUERY_SIGNED") == "1" {
			return "", "excluded:redirect-query-signed"
		}
		if m == "" {
			// the redirect-binding request must not ALSO be unverifiable inside: if it
			// carries an enveloped signature that one has to verify too.
			if x, m2 := payloadOfURL(o.url.String(), "SAMLRequest"); m2 == "" && strings.Contains(string(x), "Signature") {
				m = verifyEnveloped(cc, cert, x, "AuthnRequest")
			}
		}
		return m, ""
	}
	switch c.Msg {
	case "authn-redirect":
		if msg, excluded = redirect(c, false); excluded != "" {
			return "", excluded
		}
	case "mw":
		// whatever binding the middleware chose: the AuthnRequest it emitted must verify
		cc := c
		cc.RelayState = o.relay
		switch {
		case o.url != nil:
			if _, m2 := payloadOfURL(o.url.String(), "SAMLRequest"); m2 != "" {
				return fmt.Sprintf("mw: the middleware redirected to %q: %s", trunc(o.url.String(), 300), m2), ""
			}
			if msg, excluded = redirect(cc, !o.relayOK); excluded != "" {
				return "", excluded
			}
		case len(o.page) > 0:
			var x []byte
			if x, msg = payloadOfPage(o.page, "SAMLRequest"); msg == "" {
				msg = verifyEnveloped(cc, cert, x, "AuthnRequest")
			}
		default:
			msg = fmt.Sprintf("the middleware answered %d with neither a redirect nor a form", o.status)
		}
		if msg != "" {
			msg = fmt.Sprintf("(Middleware.Binding=%q, IdP offers %q) %s", c.MWBinding, c.IDPOffers, msg)
		}
	case "authn-post":
		var x []byte
		if x, msg = payloadOfPage(o.page, "SAMLRequest"); msg == "" {
			msg = verifyEnveloped(c, cert, x, "AuthnRequest")
		}
	case "logoutreq-redirect":
		var x []byte
		if x, msg = payloadOfURL(o.url.String(), "SAMLRequest"); msg == "" {
			msg = verifyEnveloped(c, cert, x, "LogoutRequest")
		}
	case "logoutreq-post":
		var x []byte
		if x, msg = payloadOfPage(o.page, "SAMLRequest"); msg == "" {
			msg = verifyEnveloped(c, cert, x, "LogoutRequest")
		}
	case "logoutresp-redirect":
		var x []byte
		if x, msg = payloadOfURL(o.url.String(), "SAMLResponse"); msg == "" {
			msg = verifyEnveloped(c, cert, x, "LogoutResponse")
		}
	case "logoutresp-post":
		var x []byte
		if x, msg = payloadOfPage(o.page, "SAMLResponse"); msg == "" {
			msg = verifyEnveloped(c, cert, x, "LogoutResponse")
		}
	case "artifact":
		if len(o.soap) != 1 {
			return fmt.Sprintf("an artifact at the ACS made the SP send %d requests to the artifact resolution service, want 1", len(o.soap)), ""
		}
		if o.soapURLs[0] != artifactURL {
			return fmt.Sprintf("the ArtifactResolve went to %q, the IdP metadata configures %q for the SOAP binding", o.soapURLs[0], artifactURL), ""
		}
		if msg = verifyEnveloped(c, cert, o.soap[0], "ArtifactResolve@soap"); msg != "" {
			msg = "SOAP request sent to the artifact resolution service: " + msg
		}
	}
	if msg != "" {
		return fmt.Sprintf("%s, key %s, %s: %s", c.Msg, c.Key, c.Method, msg), ""
	}
	return "", ""
}

// ---------------------------------------------------------------- exhaustive grid

// enumGrid: every method (8 supported + the unknown ones) x every key x every
// message kind, against an endpoint without and with a query, with a plain and a
// metacharacter relay state.
func enumGrid(_ string, emit func(Case)) {
	all := append(append(append([]string{}, rsaMethods...), ecMethods...), unknownMethods...)
	for _, rs := range []string{"relayState", "a b&c=d#e+f%g;h"} {
		for _, ep := range []string{"https://idp.example.org/saml", "https://idp.example.org/saml?tenant=1&x=a%20b"} {
			for _, k := range keys {
				for _, m := range all {
					for _, kind := range msgs {
						emit(Case{Key: k, Method: m, Msg: kind, RelayState: rs, NameID: "user@example.com", RequestID: "id-123", Artifact: "AAQAAMFbLinlXaCM+FIxiDwGOLAy2T71gbpO7ZhNzAgEANlB90ECfpNEVLg=", SSO: ep, SLO: ep})
					}
				}
			}
		}
	}
}

// enumSequences: on one SP, a message under every fitting method followed by a message under every
// other method of the same key family (and an unknown / mismatching one), for every message kind;
// plus request options (RequestedAuthnContext, ForceAuthn) for both AuthnRequest bindings.
func enumSequences(_ string, emit func(Case)) {
	ep := "https://idp.example.org/saml"
	base := func(k, m, kind string) Case {
		return Case{Key: k, Method: m, Msg: kind, RelayState: "rs", NameID: "user@example.com", RequestID: "id-123", Artifact: "AAQAAMFbLinlXaCM+FIxiDwGOLAy2T71gbpO7ZhNzAgEANlB90ECfpNEVLg=", SSO: ep, SLO: ep}
	}
	for _, k := range []string{"sp", "spec"} {
		fit, other := rsaMethods, ecMethods
		if k == "spec" {
			fit, other = ecMethods, rsaMethods
		}
		for _, first := range fit {
			for _, second := range append(append(append([]string{}, fit...), other[1]), unknownMethods[1]) {
				if first == second {
					continue
				}
				for _, kind := range msgs {
					c := base(k, second, kind)
					c.Prior = []Prior{{Method: first, Msg: kind}}
					emit(c)
					c2 := base(k, second, kind)
					c2.Prior = []Prior{{Method: first, Msg: "authn-redirect"}}
					emit(c2)
				}
			}
		}
		for _, kind := range []string{"authn-redirect", "authn-post"} {
			for _, ctx := range []string{"urn:oasis:names:tc:SAML:2.0:ac:classes:PasswordProtectedTransport", "urn:x:a&b<c>"} {
				for _, fa := range []string{"", "true", "false"} {
					c := base(k, fit[1], kind)
					c.AuthnContext, c.ForceAuthn = ctx, fa
					emit(c)
				}
			}
		}
	}
}

// enumMiddleware: samlsp.Middleware as emission path: Binding unset / redirect / POST x IdP offering
// both / only redirect / only POST x key family x fitting, mismatching and unknown method x tracker x
// endpoint without / with a query, alone and after / before a direct creation on the same case.
func enumMiddleware(_ string, emit func(Case)) {
	for _, k := range []string{"sp", "spec", "rsa1024", "p521"} {
		fit, other := rsaMethods, ecMethods
		if !isRSAKey(k) {
			fit, other = ecMethods, rsaMethods
		}
		for _, m := range []string{fit[0], fit[1], fit[3], other[1], unknownMethods[1]} {
			for _, b := range []string{"", "redirect", "post"} {
				for _, offers := range []string{"", "redirect", "post"} {
					for _, tr := range []string{"", "default"} {
						for _, ep := range []string{"https://idp.example.org/saml", "https://idp.example.org/saml?tenant=1"} {
							c := Case{Key: k, Method: m, Msg: "mw", RelayState: "a b&c=d", NameID: "user@example.com", RequestID: "id-123", SSO: ep, SLO: ep, MWBinding: b, IDPOffers: offers, MWTracker: tr, MWPath: "/app?x=1"}
							emit(c)
							if tr == "" && ep == "https://idp.example.org/saml" {
								c2 := c
								c2.Prior = []Prior{{Method: fit[2], Msg: "authn-post"}, {Method: fit[2], Msg: "mw"}}
								c2.ForceAuthn, c2.MWArtifact = "true", true
								emit(c2)
								c3 := c
								c3.Msg = "authn-post"
								c3.Prior = []Prior{{Method: m, Msg: "mw"}}
								emit(c3)
							}
						}
					}
				}
			}
		}
	}
}

// enumViaOptions: signing configured through samlsp.Options{SignRequest: true} only, for every key the
// fixtures offer x every message kind (middleware included), alone and after an explicitly configured step.
func enumViaOptions(_ string, emit func(Case)) {
	ep := "https://idp.example.org/saml"
	for _, k := range keys {
		for _, kind := range msgs {
			for _, inter := range []int{0, 1} {
				c := Case{Key: k, Method: viaOptions, Msg: kind, RelayState: "rs x", NameID: "user@example.com", RequestID: "id-123", Artifact: "AAQAAMFb", SSO: ep, SLO: ep, Intermediates: inter, IDPOffers: []string{"", "post"}[inter], MWPath: "/app"}
				emit(c)
			}
			fit := rsaMethods[1]
			if !isRSAKey(k) {
				fit = ecMethods[3]
			}
			c := Case{Key: k, Method: viaOptions, Msg: kind, RelayState: "rs", NameID: "user@example.com", RequestID: "id-123", Artifact: "AAQAAMFb", SSO: ep, SLO: ep, MWPath: "/", Prior: []Prior{{Method: fit, Msg: kind}, {Method: viaOptions, Msg: "authn-post"}}}
			emit(c)
		}
	}
}

// enumIDPWants: WantAuthnRequestsSigned absent / true / false x every message kind x RSA / ECDSA x method
// configured explicitly or through samlsp.Options x middleware bindings.
func enumIDPWants(_ string, emit func(Case)) {
	ep := "https://idp.example.org/saml"
	for _, want := range []string{"", "true", "false"} {
		for _, k := range []string{"sp", "spec"} {
			fit := rsaMethods[1]
			if k == "spec" {
				fit = ecMethods[1]
			}
			for _, m := range []string{fit, viaOptions} {
				for _, kind := range msgs {
					for _, b := range []string{"", "post"} {
						if kind != "mw" && b != "" {
							continue
						}
						emit(Case{Key: k, Method: m, Msg: kind, RelayState: "rs", NameID: "user@example.com", RequestID: "id-123", Artifact: "AAQAAMFb", SSO: ep + "?t=1", SLO: ep, IDPWant: want, MWBinding: b, MWPath: "/"})
					}
				}
			}
		}
	}
}

// enumRollover: on ONE ServiceProvider a message under key A (its metadata fetched), then sp.Key +
// sp.Certificate + SignatureMethod replaced by key B and every message kind made: each must verify
// under the metadata published at that moment.
func enumRollover(_ string, emit func(Case)) {
	ep := "https://idp.example.org/saml"
	fitOf := func(k string) string {
		if isRSAKey(k) {
			return rsaMethods[1]
		}
		return ecMethods[1]
	}
	ks := []string{"sp", "rsa3072", "spec", "p384"}
	for _, a := range ks {
		for _, b := range ks {
			if a == b {
				continue
			}
			for _, kind := range msgs {
				for _, first := range []string{"logoutreq-post", "authn-redirect", "mw"} {
					emit(Case{Key: b, Method: fitOf(b), Msg: kind, RelayState: "rs", NameID: "user@example.com", RequestID: "id-123", Artifact: "AAQAAMFb", SSO: ep, SLO: ep, MWPath: "/",
						Prior: []Prior{{Key: a, Method: fitOf(a), Msg: first}, {Key: b, Method: fitOf(b), Msg: first}}})
				}
			}
		}
	}
}

// enumMetadataFeeds: every message kind x RSA / ECDSA x Intermediates 0/1/2 x ResponseLocation absent /
// same / other on the IdP endpoints x the other fields that feed Metadata().
func enumMetadataFeeds(_ string, emit func(Case)) {
	ep := "https://idp.example.org/saml"
	for _, k := range []string{"sp", "spec"} {
		m := dsig.RSASHA256SignatureMethod
		if k == "spec" {
			m = dsig.ECDSASHA256SignatureMethod
		}
		for _, kind := range msgs {
			for _, inter := range []int{0, 1, 2} {
				for _, rl := range []string{"", "same", "other"} {
					for mi, mv := range []int{0, 7} {
						emit(Case{Key: k, Method: m, Msg: kind, RelayState: "rs", NameID: "user@example.com", RequestID: "id-123", Artifact: "AAQAAMFb", SSO: ep, SLO: ep + "?slo=1", Intermediates: inter, RespLoc: rl, MetaVary: mv,
							IDPWant: []string{"", "false", "true"}[(inter+mi)%3], IDPLayout: []string{"", "later-descriptor"}[mi]})
					}
				}
			}
		}
	}
}

// enumCRText: a carriage return in every text-position content, each message kind, RSA and ECDSA.
func enumCRText(_ string, emit func(Case)) {
	for _, k := range []string{"sp", "spec"} {
		m := dsig.RSASHA256SignatureMethod
		if k == "spec" {
			m = dsig.ECDSASHA256SignatureMethod
		}
		for _, kind := range msgs {
			emit(Case{Key: k, Method: m, Msg: kind, RelayState: "rs", NameID: "user\rname", RequestID: "id-123", Artifact: "AAQA\rAMFb", SSO: "https://idp.example.org/saml", SLO: "https://idp.example.org/saml"})
			// the endpoints in use sit in a later IDPSSODescriptor
			emit(Case{Key: k, Method: m, Msg: kind, RelayState: "rs", NameID: "user", RequestID: "id-123", Artifact: "AAQAAMFb", SSO: "https://idp.example.org/saml", SLO: "https://idp.example.org/saml", IDPLayout: "later-descriptor", IDPOffers: "post"})
		}
	}
}

var prop = &pbt.Prop[Case]{
	ID: "C13",
	Rule: "cases: signature method (8 supported URIs, 8 unknown / blank-but-set strings) x key (RSA-1024/2048/3072/4096, P-256/384/521) x message (AuthnRequest redirect/POST, LogoutRequest redirect/POST, LogoutResponse redirect/POST, ArtifactResolve in its SOAP envelope as sent, AuthnRequest as emitted by samlsp.Middleware (samlsp.New with SignRequest; Binding unset / redirect / POST x IdP offering both / only redirect / only POST SSO endpoints x stub / default request tracker x UseArtifactResponse)) x relay states x IdP endpoints with/without a query x optional request content (RequestedAuthnContext, ForceAuthn) x sequences of creations on one ServiceProvider value with SignatureMethod changed in between; the complete grid is enumerated, rapid adds relay states, name IDs, request IDs, artifacts and endpoints. " +
		"x SP fields that feed Metadata() (Intermediates 0-2, LogoutBindings, AuthnNameIDFormat, MetadataValidDuration) x IdP endpoint ResponseLocation (absent / equal / different). oracle: certificate = the first certificate of the signing key descriptor in xml.Unmarshal(xml.Marshal(sp.Metadata())) (AuthnRequestsSigned must be true); redirect AuthnRequest: the query contains SAMLRequest[,RelayState],SigAlg,Signature contiguously and the signature verifies (stdlib RSA PKCS#1 v1.5 / ECDSA, DER or r||s) over exactly the octets from 'SAMLRequest=' up to '&Signature='; every other message: exactly one Signature child with the configured SignatureMethod, validated by a fresh goxmldsig context trusting only that certificate, on the bytes re-parsed from the wire; mismatching or unknown method: error (middleware: error status) and no message, never a panic; all results of a sequence are kept and judged after the last creation, each under the method in force when it was made, and must not have changed meanwhile. " +
		"non-trivial: method refused, or endpoint with a query, or a relay state that needs escaping. distinct: sha256 of the JSON case.",
	Gen:   gen,
	Check: check,
	Reset: fix.Reset,
	Enums: []pbt.Enum[Case]{{Name: "method-x-key-x-message-grid", Each: enumGrid}, {Name: "carriage-return-in-text-contents", Each: enumCRText}, {Name: "sequences-on-one-sp-and-request-options", Each: enumSequences}, {Name: "middleware-binding-x-idp-offers-x-method", Each: enumMiddleware}, {Name: "intermediates-x-responselocation-x-metadata-fields", Each: enumMetadataFeeds}, {Name: "signing-configured-through-samlsp-options-x-key-x-message", Each: enumViaOptions}, {Name: "idp-wantauthnrequestssigned-x-message", Each: enumIDPWants}, {Name: "key-rollover-on-one-sp", Each: enumRollover}},
	Assumptions: []string{
		"SignatureMethod \"\" set by the application means signing is not configured and is outside this property; samlsp.Options{SignRequest: true} without an explicit method IS signing configured, for every key: the ServiceProvider / Middleware are then built by samlsp.DefaultServiceProvider / samlsp.New and judged under the method those leave in place",
		"SP Intermediates (0..2 certificates) are configured; the verification certificate is the FIRST DER value of the first X509Certificate of the published signing key descriptor, as a relying party reads it; what the library appends after it in the same element is not judged",
		"IdP endpoints carry no / an equal / a different ResponseLocation; which of the two the SP uses as destination is not judged here, only that the signature verifies over what is emitted",
		"literal TAB / LF / CR inside attribute-position contents (request ID -> InResponseTo; entity ID -> SPNameQualifier) are counted, not judged: XML attribute-value normalisation, property silent",
		"the ECDSA enveloped SignatureValue is judged by goxmldsig's own validation (the observation point the property names), whatever its DER / r||s layout",
		"parameters following Signature in a redirect query are not judged",
		"the IdP's descriptors carry WantAuthnRequestsSigned absent / true / false (and errorURL): signing configured on the SP means signed messages whatever the IdP says it wants",
		"a step of a sequence may replace sp.Key + sp.Certificate (+ SignatureMethod) on the one ServiceProvider value; the SP's metadata is fetched right after every creation and each message is judged under the certificate published at that moment",
		"the IdP metadata has one IDPSSODescriptor or a first descriptor offering only other bindings in front of it; destinations are not judged here (C12), except that the ArtifactResolve must go to the configured SOAP endpoint",
		"middleware: which binding it picks is not judged, only that the AuthnRequest it emits verifies; a configured Binding the IdP does not offer may be refused; the default cookie tracker is used only with keys its JWT codec supports (RSA, P-256), its relay state is learnt from the saml_<index> cookie",
	},
}

func TestCheck(t *testing.T) { pbt.Run(t, prop) }

func FuzzCheck(f *testing.F) { pbt.Fuzz(f, prop) }
