// Package c18: logout responses are valid only if IdP-signed, fresh and addressed to this SP.
package c18

import (
	"bytes"
	"compress/flate"
	"encoding/base64"
	"fmt"
	"net/http"
	"net/url"
	"runtime/debug"
	"strings"
	"testing"
	"time"

	"github.com/beevik/etree"
	"github.com/crewjam/saml"
	"pgregory.net/rapid"

	"verif/harness/internal/fix"
	"verif/harness/internal/forge"
	"verif/harness/internal/pbt"
	"verif/harness/internal/spkit"
	"verif/harness/internal/xgen"
)

// Field is a class of value for Destination / Issuer.
type Field struct {
	Class string `json:"class"` // correct | wrong | near | empty | absent
	Kind  string `json:"kind,omitempty"`
}

// Case is one presented logout response.
type Case struct {
	Entry     string `json:"entry"`     // form | redirect | request-post | request-get
	Trust     string `json:"trust"`     // meta1 | meta2enc | pinned | fp256
	Signer    string `json:"signer"`    // idp | idp2 | idpenc | attacker | none
	Transform string `json:"transform"` // none | sig-into-status | sig-into-extensions | wrapped | edit-dest | edit-issuer | edit-status | edit-instant | resign-attacker | strip-sig | dup-sig
	Dest      Field  `json:"dest"`
	Issuer    Field  `json:"issuer"`
	Status    string `json:"status"` // success | requester | partial | nested-success | empty | absent
	Age       string `json:"age"`    // fresh | half | stale | old | future | far-future
	Root      string `json:"root"`
	// DelayH: saml.MaxIssueDelay in hours (0 = 1 h); the ages scale with it.  Prior: the SP value was configured
	// with this trust configuration when it validated a genuine logout response (Warm), then reconfigured to
	// Trust.  Noise: SP options that concern only what it sends (spkit.Noise).
	DelayH int    `json:"delay_h,omitempty"`
	// NoKeyInfo: the signature carries no KeyInfo (a trusted signature without KeyInfo is don't-care: the verifier would
	// have to guess the certificate; an untrusted one must be refused).  Lex: lexical form of IssueInstant (see lexInstant).
	NoKeyInfo bool   `json:"no_key_info,omitempty"`
	Lex       string `json:"lex,omitempty"`
	// At (request-post / request-get entries): the URL the request is delivered at: "" = the SP's logout URL |
	// other (another SP's URL; Destination class "at" then names exactly that URL) | query (logout URL + query)
	At string `json:"at,omitempty"`
	// Repeat / PadKB: the very same message (padded by a comment of PadKB KiB, which is outside the canonical form) is
	// validated Repeat more times on the same SP value in the same process; every validation must give the same verdict
	Repeat int `json:"repeat,omitempty"`
	PadKB  int `json:"pad_kb,omitempty"`
	Warm   bool   `json:"warm,omitempty"`
	Prior  string `json:"prior,omitempty"`
	// InPlace: the reconfiguration overwrites the EntityDescriptor the SP points to instead of replacing the pointer
	InPlace bool `json:"in_place,omitempty"`
	// IssuerFormat: Format attribute of the Issuer ("" = entity | "-" = none | literal): whatever it says, the value
	// must be the IdP's entity ID
	IssuerFormat string `json:"issuer_format,omitempty"`
	Noise  uint64 `json:"noise,omitempty"`   // logout | response | assertion | norootcomment | empty | text | notxml | badb64 | baddeflate | soap | bomb
}

func value(f Field, correct string) *string {
	switch f.Class {
	case "correct":
		return forge.S(correct)
	case "wrong":
		return forge.S("https://other.example.org/x")
	case "at":
		// the URL the message is delivered at when that is not the logout URL (see Case.At); never the correct value
		if curAt != "" && curAt != correct {
			return forge.S(curAt)
		}
		return forge.S("https://other.example.org/delivered-here")
	case "near":
		if v, ok := xgen.NearMiss(correct)[f.Kind]; ok {
			return forge.S(v)
		}
		return forge.S(correct + "x")
	case "empty":
		return forge.S("")
	}
	return nil
}

// curAt: delivery URL of the case being judged ("" = the logout URL); set in check.
var curAt string

func deliveredAt(c Case) string {
	switch c.At {
	case "other":
		return "https://other-sp.example.net/saml/slo"
	case "query":
		return spkit.SPSLO + "?tenant=x"
	}
	return spkit.SPSLO
}

var statuses = map[string][]string{
	"success":        {forge.StatusOK},
	"requester":      {"urn:oasis:names:tc:SAML:2.0:status:Requester"},
	"partial":        {"urn:oasis:names:tc:SAML:2.0:status:Responder", "urn:oasis:names:tc:SAML:2.0:status:PartialLogout"},
	"nested-success": {"urn:oasis:names:tc:SAML:2.0:status:Responder", forge.StatusOK},
	"empty":          {""},
	"absent":         {},
	// further top-level values that are not Success
	"responder":       {"urn:oasis:names:tc:SAML:2.0:status:Responder"},
	"versionmismatch": {"urn:oasis:names:tc:SAML:2.0:status:VersionMismatch"},
	"partial-top":     {"urn:oasis:names:tc:SAML:2.0:status:PartialLogout"},
	"requestdenied":   {"urn:oasis:names:tc:SAML:2.0:status:RequestDenied"},
	"authnfailed":     {"urn:oasis:names:tc:SAML:2.0:status:AuthnFailed"},
	"lower-success":   {"urn:oasis:names:tc:saml:2.0:status:success"},
	"near-success":    {forge.StatusOK + " "},
	"prefixed":        {"samlp:Success"},
	"bare-success":    {"Success"},
	"garbage":         {"urn:example:whatever"},
}

var statusNames = []string{"success", "requester", "partial", "nested-success", "empty", "absent", "responder", "versionmismatch", "partial-top", "requestdenied", "authnfailed", "lower-success", "near-success", "prefixed", "bare-success", "garbage"}

var delay = time.Hour // saml.MaxIssueDelay of the case being judged (set in check)

func ageOf(a string) time.Duration {
	switch a {
	case "half":
		return delay / 2
	case "stale":
		return delay * 3 / 2
	case "old":
		return 10 * delay
	case "future":
		return -delay / 2
	case "far-future":
		return -delay * 3 / 2
	}
	return 0
}

func deflate(b []byte) []byte {
	var buf bytes.Buffer
	w, _ := flate.NewWriter(&buf, 9)
	_, _ = w.Write(b)
	_ = w.Close()
	return buf.Bytes()
}

type outcome struct {
	err   error
	panic string
}

func call(f func() error) (o outcome) {
	defer func() {
		if e := recover(); e != nil {
			o = outcome{panic: fmt.Sprintf("%v\n%s", e, debug.Stack())}
		}
	}()
	return outcome{err: f()}
}

// document builds the presented XML bytes and says whether, by construction, it
// is a genuine message: root LogoutResponse carrying an untouched enveloped
// signature by `signer` over exactly the content that is presented.
// lexInstant writes t in one of the lexical forms of xsd:dateTime (the same instant in every form).
func lexInstant(lex string, t time.Time) string {
	switch lex {
	case "plus0530":
		return t.In(time.FixedZone("", 5*3600+1800)).Format("2006-01-02T15:04:05.000-07:00")
	case "minus0800":
		return t.In(time.FixedZone("", -8*3600)).Format("2006-01-02T15:04:05.000-07:00")
	case "plus1400":
		return t.In(time.FixedZone("", 14*3600)).Format("2006-01-02T15:04:05-07:00")
	case "zoneless":
		return t.UTC().Format("2006-01-02T15:04:05.000")
	case "frac9":
		return t.UTC().Format("2006-01-02T15:04:05.000000000Z")
	}
	return forge.T(t)
}

var lexForms = []string{"plus0530", "minus0800", "plus1400", "zoneless", "frac9"}

func document(c Case, issueInstant time.Time) (doc []byte, genuineSigned bool, err error) {
	switch c.Root {
	case "norootcomment":
		return []byte("<!-- nothing here -->"), false, nil
	case "empty":
		return []byte(""), false, nil
	case "text":
		return []byte("just text"), false, nil
	case "notxml":
		return []byte("<samlp:LogoutResponse"), false, nil
	case "soap":
		return []byte(`<soap:Envelope xmlns:soap="http://schemas.xmlsoap.org/soap/envelope/"><soap:Body/></soap:Envelope>`), false, nil
	}
	sign := (*forge.SignSpec)(nil)
	if c.Signer != "none" {
		sign = &forge.SignSpec{Key: c.Signer}
		if c.NoKeyInfo {
			sign.KeyInfo = "none"
		}
	}
	if c.Root == "response" || c.Root == "assertion" {
		// a genuinely signed *Response* (or bare Assertion) whose addressing matches the SLO endpoint
		r := spkit.Baseline(issueInstant.Add(10*time.Second), "id-req", "")
		r.Destination = forge.S(spkit.SPSLO)
		r.IssueInstant = forge.T(issueInstant)
		if c.Root == "response" {
			r.Sign = sign
			el, err := forge.BuildResponse(&r)
			if err != nil {
				return nil, false, err
			}
			return forge.Bytes(el), false, nil
		}
		r.Assertions[0].Sign = sign
		el, err := forge.BuildAssertion(&r.Assertions[0])
		if err != nil {
			return nil, false, err
		}
		return forge.Bytes(el), false, nil
	}
	l := forge.LogoutSpec{
		ID: "id-logout-1", InResponseTo: forge.S("id-logoutreq"), IssueInstant: lexInstant(c.Lex, issueInstant),
		Destination: value(c.Dest, spkit.SPSLO), Issuer: value(c.Issuer, spkit.IDPEntity), IssuerFormat: c.IssuerFormat, Status: statuses[c.Status], Sign: sign,
	}
	// "edit-*" transforms sign a message that differs in one field and then set the field
	// to its presented value, so the presented content is NOT what was signed.
	presented := l
	switch c.Transform {
	case "edit-dest":
		l.Destination = forge.S("https://other.example.org/signed-for-someone-else")
	case "edit-issuer":
		l.Issuer = forge.S("https://evil.example.org/idp")
	case "edit-status":
		l.Status = statuses["requester"]
	case "edit-instant":
		l.IssueInstant = forge.T(issueInstant.Add(-100 * delay))
	}
	el, err := forge.BuildLogout(&l)
	if err != nil {
		return nil, false, err
	}
	genuineSigned = sign != nil
	sig := el.FindElement("./Signature")
	switch c.Transform {
	case "none":
	case "edit-dest":
		setOrRemove(el, "Destination", presented.Destination)
		genuineSigned = false
	case "edit-issuer":
		if is := el.FindElement("./Issuer"); is != nil {
			if presented.Issuer != nil {
				is.SetText(*presented.Issuer)
			} else {
				el.RemoveChild(is)
			}
		}
		genuineSigned = false
	case "edit-status":
		if sc := el.FindElement("./Status/StatusCode"); sc != nil && len(presented.Status) > 0 {
			sc.CreateAttr("Value", presented.Status[0])
		}
		genuineSigned = false
	case "edit-instant":
		el.CreateAttr("IssueInstant", presented.IssueInstant)
		genuineSigned = false
	case "sig-into-status":
		if sig != nil {
			el.RemoveChild(sig)
			st := el.FindElement("./Status")
			if st == nil {
				st = el.CreateElement("samlp:Status")
			}
			st.AddChild(sig)
		}
		genuineSigned = false
	case "sig-into-extensions":
		if sig != nil {
			el.RemoveChild(sig)
			el.CreateElement("samlp:Extensions").AddChild(sig)
		}
		genuineSigned = false
	case "strip-sig":
		if sig != nil {
			el.RemoveChild(sig)
		}
		genuineSigned = false
	case "dup-sig":
		if sig != nil {
			el.AddChild(sig.Copy())
		}
		genuineSigned = false // two Signature children: not a well-formed signed message
	case "resign-attacker", "resign-attacker-chain", "resign-attacker-chain-rev", "resign-attacker-own-cert":
		if sig != nil {
			el.RemoveChild(sig)
		}
		ki := map[string]string{"resign-attacker": "cert:idp", "resign-attacker-chain": "chain:attacker,idp", "resign-attacker-chain-rev": "chain:idp,attacker", "resign-attacker-own-cert": ""}[c.Transform]
		if _, err := forge.Sign(el, &forge.SignSpec{Key: "attacker", KeyInfo: ki}, false); err != nil {
			return nil, false, err
		}
		genuineSigned = false
	case "wrapped":
		// evil root with all-correct fields; the genuine signed message rides inside Extensions,
		// a copy of its Signature sits where the verifier looks
		evil := forge.LogoutSpec{ID: "id-evil", InResponseTo: forge.S("id-logoutreq"), IssueInstant: forge.T(issueInstant),
			Destination: forge.S(spkit.SPSLO), Issuer: forge.S(spkit.IDPEntity), Status: statuses["success"]}
		root, err := forge.BuildLogout(&evil)
		if err != nil {
			return nil, false, err
		}
		if sig != nil {
			forge.PlaceSignature(root, sig.Copy(), false)
		}
		root.CreateElement("samlp:Extensions").AddChild(el)
		el = root
		genuineSigned = false
	}
	return forge.Bytes(el), genuineSigned, nil
}

func setOrRemove(el *etree.Element, name string, v *string) {
	if v == nil {
		el.RemoveAttr(name)
		return
	}
	el.CreateAttr(name, *v)
}

func check(c Case) pbt.Result {
	curAt = ""
	if c.Entry == "request-post" || c.Entry == "request-get" {
		curAt = deliveredAt(c)
	}
	delay = time.Hour
	if c.DelayH > 0 && c.DelayH <= 96 {
		delay = time.Duration(c.DelayH) * time.Hour
	}
	saml.MaxIssueDelay = delay
	if rd := c.Entry == "redirect" || c.Entry == "request-get"; !rd && (c.Root == "baddeflate" || c.Root == "bomb") {
		c.Root = "logout" // deflate framings exist only in the redirect encoding
	}
	// The library reads the real clock here (validateLogoutResponse calls time.Now()):
	// instants are placed relative to the wall clock with margins of >= 30 minutes.
	issue := time.Now().UTC().Add(-ageOf(c.Age)).Truncate(time.Millisecond)
	doc, genuine, err := document(c, issue)
	if err != nil {
		return pbt.Result{Err: "harness: " + err.Error()}
	}
	first := c.Trust
	if c.Prior != "" {
		first = c.Prior
	}
	sp := spkit.NewSP(spkit.Config{Trust: first})
	spkit.Noise(sp, c.Noise)
	if c.Warm {
		// a genuine, valid logout response has been validated by this very SP value before
		w := forge.LogoutSpec{ID: "id-warm", InResponseTo: forge.S("id-warm-req"), IssueInstant: forge.T(time.Now().UTC()), Destination: forge.S(spkit.SPSLO),
			Issuer: forge.S(spkit.IDPEntity), Status: []string{forge.StatusOK}, Sign: &forge.SignSpec{Key: "idp"}}
		if el, err := forge.BuildLogout(&w); err == nil {
			wb := base64.StdEncoding.EncodeToString(forge.Bytes(el))
			_ = call(func() error { return sp.ValidateLogoutResponseForm(wb) })
		}
	}
	if c.Prior != "" {
		spkit.Retrust(sp, c.Trust, c.InPlace)
	}

	if c.PadKB > 0 && c.PadKB <= 4096 && c.Root == "logout" {
		if i := bytes.LastIndex(doc, []byte("</")); i > 0 {
			pad := append([]byte("<!--"), bytes.Repeat([]byte("A"), c.PadKB<<10)...)
			pad = append(pad, []byte("-->")...)
			doc = append(append(append([]byte{}, doc[:i]...), pad...), doc[i:]...)
		}
	}
	var payload string
	redirect := c.Entry == "redirect" || c.Entry == "request-get"
	switch {
	case c.Root == "badb64":
		payload = "@@@not-base64@@@"
	case c.Root == "baddeflate" && redirect:
		payload = base64.StdEncoding.EncodeToString([]byte{0xff, 0xfe, 0x00, 0x01, 0x02})
	case c.Root == "bomb" && redirect:
		payload = base64.StdEncoding.EncodeToString(deflate(bytes.Repeat([]byte("A"), 11*1024*1024)))
	case redirect:
		payload = base64.StdEncoding.EncodeToString(deflate(doc))
	default:
		payload = base64.StdEncoding.EncodeToString(doc)
	}
	at := spkit.SPSLO
	if curAt != "" {
		at = curAt
	}
	present := func() outcome {
		switch c.Entry {
		case "form":
			return call(func() error { return sp.ValidateLogoutResponseForm(payload) })
		case "redirect":
			return call(func() error { return sp.ValidateLogoutResponseRedirect(payload) })
		case "request-post":
			form := url.Values{"SAMLResponse": {payload}, "RelayState": {"rs"}}
			req, _ := http.NewRequest("POST", at, strings.NewReader(form.Encode()))
			req.Header.Set("Content-Type", "application/x-www-form-urlencoded")
			return call(func() error { return sp.ValidateLogoutResponseRequest(req) })
		default:
			q := url.Values{"SAMLResponse": {payload}, "RelayState": {"rs"}}
			sep := "?"
			if strings.Contains(at, "?") {
				sep = "&"
			}
			req, _ := http.NewRequest("GET", at+sep+q.Encode(), nil)
			return call(func() error { return sp.ValidateLogoutResponseRequest(req) })
		}
	}
	o := present()
	repeatNote := ""
	for k := 1; k <= c.Repeat && k <= 12; k++ {
		ok := present()
		if ok.panic != "" || (ok.err == nil) != (o.err == nil) {
			repeatNote = fmt.Sprintf("the very same message got another verdict on presentation %d of %d to the same SP: first err=%v, now err=%v panic=%q", k+1, c.Repeat+1, o.err, ok.err, ok.panic)
			break
		}
	}

	trusted := false
	for _, k := range spkit.TrustedKeys(c.Trust) {
		if k == c.Signer {
			trusted = true
		}
	}
	structural := c.Root == "logout" // the presented bytes are a LogoutResponse document in the right framing
	valid := structural && genuine && trusted &&
		c.Dest.Class == "correct" && c.Issuer.Class == "correct" && c.Status == "success" &&
		(c.Age == "fresh" || c.Age == "half" || c.Age == "future" || c.Age == "far-future")

	res := pbt.Result{Classes: []string{"entry:" + c.Entry, "root:" + c.Root, "signer:" + c.Signer, "transform:" + c.Transform, "age:" + c.Age}}
	// non-trivial: carries a signature verifying under some key and differs from the accepted baseline
	res.NonTrivial = structural && c.Signer != "none" && (!valid || c.Trust != "meta1")
	res.Classes = append(res.Classes, "sp-trust:"+c.Trust)
	if c.Prior != "" && c.Warm {
		res.Classes = append(res.Classes, "reconfigured-after-warm-up")
	}
	if c.DelayH > 0 {
		res.Classes = append(res.Classes, fmt.Sprintf("max-issue-delay:%dh", c.DelayH))
	}
	if !structural {
		res.Classes = append(res.Classes, "malformed")
		res.NonTrivial = true
	}
	desc := fmt.Sprintf("genuine-signature=%v trusted-signer=%v dest=%s issuer=%s status=%s age=%s; result: err=%v", genuine, trusted, c.Dest.Class, c.Issuer.Class, c.Status, c.Age, o.err)
	if o.panic != "" {
		res.Err = "panic: " + o.panic
		return res
	}
	if c.Repeat > 0 {
		res.Classes = append(res.Classes, "repeated-presentation")
	}
	if c.PadKB > 0 {
		res.Classes = append(res.Classes, "padded-by-a-comment")
	}
	if curAt != "" && curAt != spkit.SPSLO {
		res.Classes = append(res.Classes, "delivered-at:"+c.At)
	}
	if repeatNote != "" {
		res.Err = repeatNote
		return res
	}
	if c.NoKeyInfo {
		res.Classes = append(res.Classes, "signature-without-keyinfo")
	}
	if c.Lex != "" {
		res.Classes = append(res.Classes, "issue-instant-form:"+c.Lex)
	}
	switch {
	case valid && c.NoKeyInfo:
		// without KeyInfo the verifier has to guess the certificate: fingerprint trust cannot, and with several
		// trusted certificates the underlying signature library refuses - only the must-reject side is judged
		res.Classes = append(res.Classes, "model:dont-care")
	case valid:
		// (a future-dated response was issued "no longer than MaxIssueDelay ago" too: the property bounds the past only,
		// and a response meeting every clause is reported valid)
		res.Classes = append(res.Classes, "model:must-accept")
		if o.err != nil {
			res.Err = "well-formed, trusted-signed, fresh, addressed logout response reported invalid: " + desc
		}
	default:
		res.Classes = append(res.Classes, "model:must-reject")
		if o.err == nil {
			res.Err = "logout response reported valid although it must not be: " + desc
		}
	}
	return res
}

// ---------------------------------------------------------------- generators

var issuerFormats = []string{"-", "urn:oasis:names:tc:SAML:1.1:nameid-format:unspecified", "urn:oasis:names:tc:SAML:2.0:nameid-format:persistent", "urn:oasis:names:tc:SAML:2.0:nameid-format:transient", "urn:example:no-such-format", " "}

var transforms = []string{"none", "none", "none", "sig-into-status", "sig-into-extensions", "wrapped", "edit-dest", "edit-issuer", "edit-status", "edit-instant", "resign-attacker", "resign-attacker-chain", "resign-attacker-chain-rev", "resign-attacker-own-cert", "strip-sig", "dup-sig"}
var roots = []string{"logout", "logout", "logout", "logout", "logout", "logout", "logout", "logout", "response", "assertion", "norootcomment", "empty", "text", "notxml", "badb64", "baddeflate", "soap", "bomb"}

func genField(t *rapid.T, label string) Field {
	f := Field{Class: rapid.SampledFrom([]string{"correct", "correct", "correct", "correct", "wrong", "near", "empty", "absent"}).Draw(t, label)}
	if f.Class == "near" {
		f.Kind = rapid.SampledFrom(xgen.NearMissKeys).Draw(t, label+"kind")
	}
	return f
}

func gen(t *rapid.T) Case {
	c := gen0(t)
	c.DelayH = rapid.SampledFrom([]int{0, 0, 6, 48}).Draw(t, "delayh")
	if c.Entry == "request-post" || c.Entry == "request-get" {
		c.At = rapid.SampledFrom([]string{"", "", "other", "query"}).Draw(t, "at")
		if c.At != "" && rapid.Bool().Draw(t, "destat") {
			c.Dest = Field{Class: "at"}
		}
	}
	c.NoKeyInfo = rapid.IntRange(0, 4).Draw(t, "nokeyinfo") == 0
	if rapid.IntRange(0, 2).Draw(t, "lex?") == 0 {
		c.Lex = rapid.SampledFrom(lexForms).Draw(t, "lex")
	}
	if rapid.IntRange(0, 5).Draw(t, "repeat?") == 0 {
		c.Repeat = rapid.IntRange(1, 3).Draw(t, "repeat")
		c.PadKB = rapid.SampledFrom([]int{0, 1, 64}).Draw(t, "padkb")
	}
	c.Warm = rapid.IntRange(0, 3).Draw(t, "warm") == 0
	if rapid.IntRange(0, 3).Draw(t, "reconfigured") == 0 {
		c.Prior = rapid.SampledFrom(spkit.Trusts).Draw(t, "prior")
		c.InPlace = rapid.Bool().Draw(t, "inplace")
	}
	if rapid.IntRange(0, 2).Draw(t, "issuerformat?") == 0 {
		c.IssuerFormat = rapid.SampledFrom(issuerFormats).Draw(t, "issuerformat")
	}
	if rapid.IntRange(0, 2).Draw(t, "noise?") == 0 {
		c.Noise = rapid.Uint64Range(1, 1023).Draw(t, "noise")
	}
	return c
}

func gen0(t *rapid.T) Case {
	return Case{
		Entry:     rapid.SampledFrom([]string{"form", "redirect", "request-post", "request-get"}).Draw(t, "entry"),
		Trust:     rapid.SampledFrom(append([]string{"meta1", "meta1", "meta1"}, spkit.Trusts...)).Draw(t, "trust"),
		Signer:    rapid.SampledFrom([]string{"idp", "idp", "idp", "idp2", "idpenc", "attacker", "none"}).Draw(t, "signer"),
		Transform: rapid.SampledFrom(transforms).Draw(t, "transform"),
		Dest:      genField(t, "dest"),
		Issuer:    genField(t, "issuer"),
		Status:    rapid.SampledFrom(append([]string{"success", "success", "success", "success", "success", "success", "success"}, statusNames...)).Draw(t, "status"),
		Age:       rapid.SampledFrom([]string{"fresh", "fresh", "half", "stale", "old", "future", "far-future"}).Draw(t, "age"),
		Root:      rapid.SampledFrom(roots).Draw(t, "root"),
	}
}

// enumReconfigured: one SP value validates genuine logout responses under one trust configuration and is then
// reconfigured to every other one; and the freshness boundary under other MaxIssueDelay settings.
func enumReconfigured(_ string, emit func(Case)) {
	ok := Field{Class: "correct"}
	for _, prior := range spkit.Trusts {
		for _, trust := range spkit.Trusts {
			if prior == trust {
				continue
			}
			for _, signer := range []string{"idp", "idp2"} {
				for _, entry := range []string{"form", "redirect"} {
					emit(Case{Entry: entry, Trust: trust, Prior: prior, Warm: true, Signer: signer, Transform: "none", Dest: ok, Issuer: ok, Status: "success", Age: "fresh", Root: "logout"})
					emit(Case{Entry: entry, Trust: trust, Prior: prior, Warm: true, InPlace: true, Signer: signer, Transform: "none", Dest: ok, Issuer: ok, Status: "success", Age: "fresh", Root: "logout"})
				}
			}
		}
	}
	for _, f := range issuerFormats {
		for _, iss := range []Field{ok, {Class: "wrong"}, {Class: "empty"}, {Class: "near", Kind: xgen.NearMissKeys[0]}} {
			for _, entry := range []string{"form", "redirect", "request-post", "request-get"} {
				emit(Case{Entry: entry, Trust: "meta1", Signer: "idp", Transform: "none", Dest: ok, Issuer: iss, IssuerFormat: f, Status: "success", Age: "fresh", Root: "logout"})
			}
		}
	}
	// delivered at another URL through the request entry points: Destination names the logout URL / exactly the
	// delivery URL / something else
	for _, at := range []string{"other", "query"} {
		for _, entry := range []string{"request-post", "request-get"} {
			for _, d := range []Field{ok, {Class: "at"}, {Class: "wrong"}, {Class: "absent"}} {
				emit(Case{Entry: entry, At: at, Trust: "meta1", Signer: "idp", Transform: "none", Dest: d, Issuer: ok, Status: "success", Age: "fresh", Root: "logout"})
			}
		}
	}
	// the same valid message, padded to 1 / 3 MiB, validated 6 times by one SP in each encoding (inflated volume
	// 6-18 MiB in one process: the 10 MB bound is per message)
	for _, entry := range []string{"form", "redirect", "request-post", "request-get"} {
		for _, kb := range []int{1024, 3072} {
			emit(Case{Entry: entry, Trust: "meta1", Signer: "idp", Transform: "none", Dest: ok, Issuer: ok, Status: "success", Age: "fresh", Root: "logout", Repeat: 5, PadKB: kb})
		}
	}
	// signatures without KeyInfo by every signer under every trust configuration; every lexical form of IssueInstant
	// at every age
	for _, trust := range spkit.Trusts {
		for _, signer := range []string{"idp", "idp2", "idpenc", "attacker", "idpski", "lookalike"} {
			for _, entry := range []string{"form", "redirect"} {
				emit(Case{Entry: entry, Trust: trust, Signer: signer, NoKeyInfo: true, Transform: "none", Dest: ok, Issuer: ok, Status: "success", Age: "fresh", Root: "logout"})
			}
		}
	}
	for _, lx := range lexForms {
		for _, age := range []string{"fresh", "half", "stale", "old", "future", "far-future"} {
			for _, entry := range []string{"form", "redirect", "request-post", "request-get"} {
				emit(Case{Entry: entry, Trust: "meta1", Signer: "idp", Transform: "none", Dest: ok, Issuer: ok, Status: "success", Age: age, Root: "logout", Lex: lx})
			}
		}
	}
	for _, h := range []int{6, 48} {
		for _, age := range []string{"fresh", "half", "stale", "old", "future", "far-future"} {
			for _, entry := range []string{"form", "redirect", "request-post", "request-get"} {
				emit(Case{Entry: entry, Trust: "meta1", Signer: "idp", Transform: "none", Dest: ok, Issuer: ok, Status: "success", Age: age, Root: "logout", DelayH: h})
			}
		}
	}
}

// enumSingleFault: every single deviation from the valid baseline, in every entry point and trust configuration.
func enumSingleFault(_ string, emit func(Case)) {
	ok := Field{Class: "correct"}
	for _, entry := range []string{"form", "redirect", "request-post", "request-get"} {
		for _, trust := range spkit.Trusts {
			base := Case{Entry: entry, Trust: trust, Signer: "idp", Transform: "none", Dest: ok, Issuer: ok, Status: "success", Age: "fresh", Root: "logout"}
			emit(base)
			for _, s := range []string{"idp2", "idpenc", "attacker", "none"} {
				c := base
				c.Signer = s
				emit(c)
			}
			for _, tr := range transforms[3:] {
				c := base
				c.Transform = tr
				emit(c)
			}
			var fields []Field
			for _, cl := range []string{"wrong", "empty", "absent"} {
				fields = append(fields, Field{Class: cl})
			}
			for _, k := range xgen.NearMissKeys {
				fields = append(fields, Field{Class: "near", Kind: k})
			}
			for _, f := range fields {
				c := base
				c.Dest = f
				emit(c)
				c = base
				c.Issuer = f
				emit(c)
			}
			for st := range statuses {
				_ = st
			}
			for _, st := range statusNames[1:] {
				c := base
				c.Status = st
				emit(c)
			}
			for _, age := range []string{"half", "stale", "old", "future", "far-future"} {
				c := base
				c.Age = age
				emit(c)
			}
			for _, root := range roots[8:] {
				c := base
				c.Root = root
				emit(c)
			}
		}
	}
}

var prop = &pbt.Prop[Case]{
	ID: "C18",
	Rule: "cases: LogoutResponse documents built by the harness and presented through ValidateLogoutResponseForm / Redirect / Request(GET, POST): signer in {trusted, second trusted, encryption-only IdP key, untrusted, nobody} x trust configuration x transformation after signing " +
		"(signature moved into Status / Extensions, wrapped in an evil root with the signature copied, one field edited after signing, re-signed by the untrusted key with the trusted certificate in KeyInfo (alone, or in a two-certificate chain in either order), stripped, duplicated) x Destination, Issuer in {correct, wrong, near-miss, empty, absent} (Issuer with any Format attribute) x Status (16 top-level / nested values) x delivery URL of the request entry points {logout URL, another SP's URL, logout URL + query; Destination may name exactly the delivery URL} x repeated presentation of the very same message (optionally padded to 3 MiB by a comment) to one SP x signatures with and without KeyInfo x lexical form of IssueInstant (Z, offsets, zone-less, nine fraction digits) x IssueInstant age {0, 1/2, 3/2, 10} x MaxIssueDelay in {1 h, 6 h, 48 h} and future-dated, on an SP value that may have validated a genuine logout response before - under another trust configuration (all ordered pairs enumerated) - and with unrelated SP options set, " +
		"plus malformed framings (rootless, empty, text, truncated XML, bad base64, bad deflate, 11 MiB deflate bomb, SOAP envelope, a genuinely signed Response or Assertion presented as a logout response). " +
		"exhaustive single-fault grid over every entry point and trust configuration plus rapid full combinations. oracle: nil error iff untouched trusted enveloped signature on the root, Destination = SLO URL, Issuer = IdP entity ID, fresh, Success; never a panic. " +
		"non-trivial: the document carries a signature that verifies under some key and differs from the accepted baseline, or is malformed. distinct: sha256 of the JSON case.",
	Gen:   gen,
	Check: check,
	Reset: fix.Reset,
	Enums: []pbt.Enum[Case]{{Name: "single-fault-grid", Each: enumSingleFault}, {Name: "reconfigured-trust-and-issue-delays", Each: enumReconfigured}},
	Assumptions: []string{
		"validateLogoutResponse reads the real clock (time.Now): the freshness boundary is probed with margins of 30 minutes (MaxIssueDelay set to 1 h), so this check depends on the wall clock within that margin",
		"future-dated responses (issued half a MaxIssueDelay ahead of the SP clock) meet the freshness clause: must-accept",
	},
}

func TestCheck(t *testing.T) { pbt.Run(t, prop) }

func FuzzCheck(f *testing.F) { pbt.Fuzz(f, prop) }
