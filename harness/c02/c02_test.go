// Package c02: the SP enforces assertion and response validity windows at the documented tolerances.
package c02

import (
	"fmt"
	"strings"
	"testing"
	"time"

	"github.com/crewjam/saml"
	"pgregory.net/rapid"

	"verif/harness/internal/fix"
	"verif/harness/internal/forge"
	"verif/harness/internal/pbt"
	"verif/harness/internal/spkit"
)

// All margins are in nanoseconds and are signed distances of `now` to a boundary:
// positive = now is inside the window by that much, negative = outside.
//
//	IssueInstant + MaxIssueDelay - now          (response, assertion)
//	now - (NotBefore - MaxClockSkew)            (conditions)
//	NotOnOrAfter + MaxClockSkew - now           (conditions, each confirmation)
type AssertionTimes struct {
	Issue     int64    `json:"issue"`
	NotBefore int64    `json:"not_before"`
	NotAfter  int64    `json:"not_after"`
	Confs     []int64  `json:"confs"`
	Methods   []string `json:"methods,omitempty"` // per confirmation: "" = bearer | hok | sv
	// ConfNB: every SubjectConfirmationData also carries the optional NotBefore attribute, placed 72 h in the past
	// (valid under every reading); the NotOnOrAfter bound of that confirmation holds regardless.
	ConfNB bool `json:"conf_not_before,omitempty"`
	Encrypted bool     `json:"encrypted,omitempty"`
}

// Case is one response with its instants placed relative to the boundaries.
type Case struct {
	DelayNs  int64            `json:"delay_ns"` // saml.MaxIssueDelay
	SkewNs   int64            `json:"skew_ns"`  // saml.MaxClockSkew
	NowSec   int64            `json:"now_sec"`
	NowNsec  int64            `json:"now_nsec"`
	Layout   string           `json:"layout"` // resp | assert | both
	Entry    string           `json:"entry"`  // xml | post
	Lex      string           `json:"lex"`    // lib | zone | frac | zoneless | subms
	SubNs    int64            `json:"sub_ns,omitempty"`
	NoDest   bool             `json:"no_dest,omitempty"`             // the Response carries no Destination (allowed when it is unsigned)
	AllowIDP bool             `json:"allow_idp_initiated,omitempty"` // windows must hold whether or not IdP-initiated login is allowed
	Resp     int64            `json:"resp"`                          // response IssueInstant margin
	Asserts  []AssertionTimes `json:"asserts"`
	// Trust: the SP's trust configuration ("" = meta1; every configuration trusts the signing key used here).
	// Warm: the same ServiceProvider value has processed an ordinary valid login before this message.
	Trust string `json:"trust,omitempty"`
	Warm  bool   `json:"warm,omitempty"`
	// Hooks: the application installed its own (accept-everything) validators - "reqid", "audience" or "both".
	// They replace the request-ID and audience rules; the time windows hold regardless.
	Hooks string `json:"hooks,omitempty"`
	// RespInstant / AsrtInstant: "" = as placed | "absent" (no IssueInstant attribute) | "empty" (IssueInstant="") on the
	// Response / on every assertion: there is then no instant that could lie inside the window.
	RespInstant string `json:"resp_instant,omitempty"`
	AsrtInstant string `json:"asrt_instant,omitempty"`
	// LocalMin: the process's local time zone (time.Local) is UTC+LocalMin minutes while the message is judged; the
	// documented reading of a zone-less instant is UTC wherever the SP runs
	LocalMin int `json:"local_min,omitempty"`
	// Noise: options of the SP that concern only what it sends (see spkit.Noise); the verdict must not depend on them
	Noise uint64 `json:"noise,omitempty"`
	// ArtSigned (Entry "artifact"): the carrying ArtifactResponse is itself genuinely signed by the IdP and fresh;
	// the windows of the Response and assertion inside hold regardless.
	ArtSigned bool `json:"art_signed,omitempty"`
}

const (
	ms  = int64(time.Millisecond)
	far = int64(72 * time.Hour)
)

func (c *Case) now() time.Time { return time.Unix(c.NowSec, c.NowNsec).UTC() }

// lexical renders instant t (already at the wanted precision) in the case's lexical form.
func (c *Case) lexical(t time.Time) string {
	switch c.Lex {
	case "zone":
		return t.In(time.FixedZone("", 5*3600+1800)).Format("2006-01-02T15:04:05.999-07:00")
	case "zoneneg":
		return t.In(time.FixedZone("", -8*3600)).Format("2006-01-02T15:04:05.999999999-07:00")
	case "frac", "subms":
		return t.UTC().Format("2006-01-02T15:04:05.000000000Z")
	case "zoneless":
		return t.UTC().Format("2006-01-02T15:04:05.999999999")
	default:
		return t.UTC().Format(forge.TimeFormat)
	}
}

// place returns the instant to write for a boundary quantity together with the
// margin that will be effective after the parser's documented millisecond rounding.
// want is the instant that would make the margin exact; sub-millisecond digits
// (lexical form "subms") are added on top and removed again by rounding.
func (c *Case) place(want time.Time) (text string, effective time.Time) {
	w := want
	if c.Lex == "subms" {
		w = w.Add(time.Duration(c.SubNs))
	}
	switch c.Lex {
	case "lib", "zone":
		// these forms carry milliseconds only: truncate what we write, as Format(".999") does
		w = w.Truncate(time.Millisecond)
	}
	return c.lexical(w), w.Round(time.Millisecond)
}

type built struct {
	spec    forge.ResponseSpec
	respEff int64 // effective response margin
	effs    []AssertionTimes
}

func (c *Case) build() built {
	now := c.now()
	delay, skew := time.Duration(c.DelayNs), time.Duration(c.SkewNs)
	margin := func(eff time.Time, upper bool, tol time.Duration) int64 {
		if upper {
			return int64(eff.Add(tol).Sub(now))
		}
		return int64(now.Sub(eff.Add(-tol)))
	}
	var b built
	respText, respEff := c.place(now.Add(time.Duration(c.Resp)).Add(-delay))
	b.respEff = margin(respEff, true, delay)
	r := spkit.Baseline(now, "id-req", "")
	r.IssueInstant = respText
	switch c.RespInstant {
	case "absent":
		r.IssueInstant, b.respEff = "-", -far
	case "empty":
		r.IssueInstant, b.respEff = "", -far
	}
	if c.NoDest && c.Layout == "assert" {
		r.Destination = nil
	}
	r.Assertions = nil
	sign := &forge.SignSpec{Key: "idp"}
	if c.Layout == "resp" || c.Layout == "both" {
		r.Sign = sign
	}
	for i, at := range c.Asserts {
		a := spkit.BaselineAssertion(now, "id-req", "", fmt.Sprintf("id-a%d", i), fmt.Sprintf("user-%d", i))
		var eff AssertionTimes
		var e time.Time
		a.IssueInstant, e = c.place(now.Add(time.Duration(at.Issue)).Add(-delay))
		eff.Issue = margin(e, true, delay)
		switch c.AsrtInstant {
		case "absent":
			a.IssueInstant, eff.Issue = "-", -far
		case "empty":
			a.IssueInstant, eff.Issue = "", -far
		}
		var s string
		s, e = c.place(now.Add(-time.Duration(at.NotBefore)).Add(skew))
		a.NotBefore = forge.S(s)
		eff.NotBefore = margin(e, false, skew)
		s, e = c.place(now.Add(time.Duration(at.NotAfter)).Add(-skew))
		a.NotOnOrAfter = forge.S(s)
		eff.NotAfter = margin(e, true, skew)
		a.Confirmations = nil
		for ci, cm := range at.Confs {
			s, e = c.place(now.Add(time.Duration(cm)).Add(-skew))
			method := ""
			if ci < len(at.Methods) {
				method = map[string]string{"hok": "urn:oasis:names:tc:SAML:2.0:cm:holder-of-key", "sv": "urn:oasis:names:tc:SAML:2.0:cm:sender-vouches"}[at.Methods[ci]]
			}
			cf := forge.Confirmation{Method: method, Recipient: forge.S(spkit.SPACS), InResponseTo: forge.S("id-req"), NotOnOrAfter: forge.S(s)}
			if at.ConfNB {
				// always in the library's own RFC 3339 form: this optional attribute is not one of the property's
				// instants and is read by time.Time's own parser, which does not admit the zone-less form
				cf.NotBefore = forge.S(forge.T(now.Add(-time.Duration(far)).Truncate(time.Millisecond)))
			}
			a.Confirmations = append(a.Confirmations, cf)
			eff.Confs = append(eff.Confs, margin(e, true, skew))
		}
		if c.Layout == "assert" || c.Layout == "both" {
			a.Sign = sign
		}
		if at.Encrypted {
			a.Encrypt = &forge.EncSpec{To: "sp", Seed: uint64(i) + 1}
		}
		b.effs = append(b.effs, eff)
		r.Assertions = append(r.Assertions, a)
	}
	b.spec = r
	return b
}

func minMargin(a AssertionTimes) int64 {
	m := a.Issue
	for _, x := range append([]int64{a.NotBefore, a.NotAfter}, a.Confs...) {
		if x < m {
			m = x
		}
	}
	return m
}

func check(c Case) pbt.Result {
	if c.LocalMin != 0 && c.LocalMin > -900 && c.LocalMin < 900 {
		old := time.Local
		time.Local = time.FixedZone("harness-local", c.LocalMin*60)
		defer func() { time.Local = old }()
	}
	saml.MaxIssueDelay = time.Duration(c.DelayNs)
	saml.MaxClockSkew = time.Duration(c.SkewNs)
	fix.SetNow(c.now())
	b := c.build()
	doc, err := forge.ResponseBytes(&b.spec)
	if err != nil {
		return pbt.Result{Err: "harness: cannot build message: " + err.Error()}
	}
	sp := spkit.NewSP(spkit.Config{Trust: c.Trust, AllowIDPInit: c.AllowIDP})
	spkit.Noise(sp, c.Noise)
	if c.Hooks == "reqid" || c.Hooks == "both" {
		sp.ValidateRequestID = func(saml.Response, []string) error { return nil }
	}
	if c.Hooks == "audience" || c.Hooks == "both" {
		sp.ValidateAudienceRestriction = func(*saml.Assertion) error { return nil }
	}
	if c.Warm {
		spkit.WarmUp(sp, c.now())
	}
	var o spkit.Outcome
	switch c.Entry {
	case "post":
		o = spkit.ParsePOST(sp, doc, []string{"id-req"}, spkit.SPACS)
	case "artifact":
		// the same Response inside a fresh, unsigned ArtifactResponse (its own instant is not C02's subject)
		el, err := forge.BuildResponse(&b.spec)
		if err != nil {
			return pbt.Result{Err: "harness: " + err.Error()}
		}
		as := &forge.ArtifactSpec{ID: "id-art", InResponseTo: forge.S("id-artreq"), IssueInstant: forge.T(c.now().Add(time.Hour)), Issuer: forge.S(spkit.IDPEntity), Status: []string{forge.StatusOK}}
		if c.ArtSigned {
			as.Sign = &forge.SignSpec{Key: "idp"}
		}
		env, err := forge.BuildArtifact(as, el)
		if err != nil {
			return pbt.Result{Err: "harness: " + err.Error()}
		}
		o = spkit.ParseArtifactXML(sp, forge.Bytes(env), []string{"id-req"}, "id-artreq", spkit.SPACS)
	default:
		o = spkit.ParseXML(sp, doc, []string{"id-req"}, spkit.SPACS)
	}

	res := pbt.Result{Classes: []string{"lex:" + c.Lex, "layout:" + c.Layout, fmt.Sprintf("asserts:%d", len(c.Asserts))}}
	if c.Trust != "" {
		res.Classes = append(res.Classes, "sp-trust:"+c.Trust)
	}
	if c.Noise != 0 {
		res.Classes = append(res.Classes, "sp-unrelated-options-set")
	}
	if c.Warm {
		res.Classes = append(res.Classes, "sp-served-a-login-before")
	}
	if c.Hooks != "" {
		res.Classes = append(res.Classes, "custom-validators:"+c.Hooks)
	}
	if c.RespInstant != "" || c.AsrtInstant != "" {
		res.Classes = append(res.Classes, "issue-instant-absent-or-empty")
	}
	if c.LocalMin != 0 {
		res.Classes = append(res.Classes, "process-local-zone-not-utc")
	}
	if c.Entry == "artifact" && c.ArtSigned {
		res.Classes = append(res.Classes, "artifact-response-itself-signed")
	}
	for _, at := range c.Asserts {
		if at.ConfNB && len(at.Confs) > 0 {
			res.Classes = append(res.Classes, "confirmation-data-with-not-before")
			break
		}
	}
	// model
	anyInside, allOutside := false, true
	near, opposite := false, false
	pos, neg := false, false
	mark := func(m int64) {
		if m > -2*ms && m < 2*ms {
			near = true
		}
		if m > 0 {
			pos = true
		} else if m < 0 {
			neg = true
		}
	}
	mark(b.respEff)
	for _, e := range b.effs {
		mm := minMargin(e)
		if mm >= ms {
			anyInside = true
		}
		if mm > -ms {
			allOutside = false
		}
		mark(e.Issue)
		mark(e.NotBefore)
		mark(e.NotAfter)
		for _, x := range e.Confs {
			mark(x)
		}
		if len(e.Confs) > 1 {
			res.Classes = append(res.Classes, "multi-confirmation")
		}
		if e.Encrypted {
			res.Classes = append(res.Classes, "encrypted")
		}
	}
	opposite = pos && neg
	nonDefaultTol := c.DelayNs != int64(90*time.Second) || c.SkewNs != int64(180*time.Second)
	res.NonTrivial = near || opposite || nonDefaultTol
	if near {
		res.Classes = append(res.Classes, "boundary<2ms")
	}
	if nonDefaultTol {
		res.Classes = append(res.Classes, "non-default-tolerance")
	}

	mustReject := b.respEff <= -ms || allOutside
	mustAccept := b.respEff >= ms && anyInside
	for _, e := range b.effs {
		if len(e.Confs) == 0 {
			// an assertion without any subject confirmation: the "every confirmation"
			// clause is vacuous and the property does not say it must be accepted
			mustAccept = false
			res.Classes = append(res.Classes, "no-confirmation")
		}
	}
	switch {
	case mustAccept:
		res.Classes = append(res.Classes, "model:must-accept")
	case mustReject:
		res.Classes = append(res.Classes, "model:must-reject")
	default:
		res.Classes = append(res.Classes, "model:dont-care")
	}
	if o.Panic != "" {
		res.Err = "panic while parsing: " + o.Panic
		return res
	}
	desc := func() string {
		return fmt.Sprintf("now=%s delay=%s skew=%s effective margins: response=%s assertions=%s; outcome: %s",
			c.now().Format(time.RFC3339Nano), time.Duration(c.DelayNs), time.Duration(c.SkewNs), time.Duration(b.respEff), fmtEffs(b.effs), o.Describe())
	}
	if o.Accepted() {
		if mustReject {
			res.Err = "accepted although a validity window is violated by >= 1 ms: " + desc()
			return res
		}
		// the returned assertion itself must be inside all of its windows
		idx := -1
		for i := range c.Asserts {
			if o.Assertion.ID == fmt.Sprintf("id-a%d", i) {
				idx = i
			}
		}
		if idx < 0 {
			res.Err = "returned assertion is none of the generated ones: " + desc()
			return res
		}
		if minMargin(b.effs[idx]) <= -ms {
			res.Err = fmt.Sprintf("returned assertion #%d violates one of its own windows by >= 1 ms: %s", idx, desc())
			return res
		}
		if b.respEff <= -ms {
			res.Err = "accepted although the response IssueInstant window is violated: " + desc()
		}
		return res
	}
	if mustAccept {
		res.Err = "rejected although strictly inside every window (>= 1 ms): " + desc()
	}
	return res
}

func fmtEffs(effs []AssertionTimes) string {
	var parts []string
	for i, e := range effs {
		var cs []string
		for _, x := range e.Confs {
			cs = append(cs, time.Duration(x).String())
		}
		parts = append(parts, fmt.Sprintf("#%d{issue=%s notBefore=%s notOnOrAfter=%s confs=[%s]}", i, time.Duration(e.Issue), time.Duration(e.NotBefore), time.Duration(e.NotAfter), strings.Join(cs, " ")))
	}
	return strings.Join(parts, " ")
}

// ---------------------------------------------------------------- generators

var tolerances = [][2]int64{
	{int64(90 * time.Second), int64(180 * time.Second)},
	{0, 0},
	{ms, ms},
	{int64(time.Hour), 0},
	{0, int64(time.Hour)},
	{int64(7 * time.Second), int64(11 * time.Hour)},
}

var lattice = []int64{far, ms, -ms, -far}

func genMargin(t *rapid.T, label string) int64 {
	switch rapid.IntRange(0, 9).Draw(t, label+"class") {
	case 0, 1, 2:
		return far
	case 3:
		return -far
	case 4:
		return rapid.SampledFrom([]int64{ms, -ms, 2 * ms, -2 * ms, 3 * ms / 2, -3 * ms / 2}).Draw(t, label)
	case 5:
		return rapid.Int64Range(-5*ms, 5*ms).Draw(t, label)
	case 6:
		return rapid.Int64Range(-int64(10*time.Minute), int64(10*time.Minute)).Draw(t, label)
	default:
		return rapid.Int64Range(int64(time.Second), int64(48*time.Hour)).Draw(t, label)
	}
}

func gen(t *rapid.T) Case {
	c := Case{
		Layout: rapid.SampledFrom([]string{"resp", "assert", "both"}).Draw(t, "layout"),
		Entry:  rapid.SampledFrom([]string{"xml", "post", "artifact"}).Draw(t, "entry"),
		Lex:    rapid.SampledFrom([]string{"lib", "lib", "zone", "zoneneg", "frac", "zoneless", "subms"}).Draw(t, "lex"),
	}
	if c.Lex == "subms" {
		c.SubNs = rapid.Int64Range(-499_999, 499_999).Draw(t, "subns")
	}
	c.NoDest = c.Layout == "assert" && rapid.IntRange(0, 2).Draw(t, "nodest") == 0
	c.ArtSigned = c.Entry == "artifact" && rapid.Bool().Draw(t, "artsigned")
	c.AllowIDP = rapid.IntRange(0, 3).Draw(t, "allowidp") == 0
	if rapid.IntRange(0, 2).Draw(t, "othertrust") == 0 {
		c.Trust = rapid.SampledFrom(spkit.TrustsIDP).Draw(t, "trust")
	}
	c.Warm = rapid.IntRange(0, 3).Draw(t, "warm") == 0
	c.Hooks = rapid.SampledFrom([]string{"", "", "", "reqid", "audience", "both"}).Draw(t, "hooks")
	if rapid.IntRange(0, 11).Draw(t, "noinstant") == 0 {
		c.RespInstant = rapid.SampledFrom([]string{"absent", "empty", ""}).Draw(t, "respinstant")
		c.AsrtInstant = rapid.SampledFrom([]string{"absent", "empty", ""}).Draw(t, "asrtinstant")
	}
	if rapid.IntRange(0, 2).Draw(t, "local?") == 0 {
		c.LocalMin = rapid.SampledFrom([]int{-720, -480, -300, -1, 1, 60, 330, 540, 840}).Draw(t, "localmin")
	}
	if rapid.IntRange(0, 2).Draw(t, "noise?") == 0 {
		c.Noise = rapid.Uint64Range(1, 255).Draw(t, "noise")
	}
	if rapid.Bool().Draw(t, "stdtol") {
		tol := rapid.SampledFrom(tolerances).Draw(t, "tol")
		c.DelayNs, c.SkewNs = tol[0], tol[1]
	} else {
		c.DelayNs = rapid.Int64Range(0, int64(48*time.Hour)).Draw(t, "delay")
		c.SkewNs = rapid.Int64Range(0, int64(48*time.Hour)).Draw(t, "skew")
	}
	// years 1971..2099
	c.NowSec = rapid.Int64Range(40000000, 4070000000).Draw(t, "now")
	c.NowNsec = rapid.SampledFrom([]int64{0, 0, 1, 500_000, 999_999_999, 123_456_789}).Draw(t, "nowns")
	c.Resp = genMargin(t, "resp")
	n := rapid.SampledFrom([]int{1, 1, 1, 2, 3}).Draw(t, "nasserts")
	for i := 0; i < n; i++ {
		a := AssertionTimes{Issue: genMargin(t, "issue"), NotBefore: genMargin(t, "nb"), NotAfter: genMargin(t, "na"), Encrypted: rapid.IntRange(0, 3).Draw(t, "enc") == 0}
		nc := rapid.SampledFrom([]int{1, 1, 2, 3, 0}).Draw(t, "nconf")
		for j := 0; j < nc; j++ {
			a.Confs = append(a.Confs, genMargin(t, "conf"))
			a.Methods = append(a.Methods, rapid.SampledFrom([]string{"", "", "", "hok", "sv"}).Draw(t, "method"))
		}
		a.ConfNB = rapid.IntRange(0, 3).Draw(t, "confnb") == 0
		c.Asserts = append(c.Asserts, a)
	}
	return c
}

// enumLattice enumerates {far inside, 1 ms inside, 1 ms outside, far outside}^5 for the
// five boundaries, crossed with the tolerance settings, shapes, layouts and encryption.
// quick takes every 8th member (the stride is coprime to 4, so every lattice value of
// every boundary is still visited).
// enumNoInstant: Response / Assertion IssueInstant absent or empty with every other window far inside, per layout,
// entry point and tolerance; and every lexical form under non-UTC process zones with each window 1 ms inside / outside.
func enumNoInstant(_ string, emit func(Case)) {
	good := func() AssertionTimes { return AssertionTimes{Issue: far, NotBefore: far, NotAfter: far, Confs: []int64{far}} }
	for ti, tol := range tolerances {
		for _, layout := range []string{"assert", "resp", "both"} {
			for _, entry := range []string{"xml", "post", "artifact"} {
				for _, ri := range []string{"", "absent", "empty"} {
					for _, ai := range []string{"", "absent", "empty"} {
						if ri == "" && ai == "" {
							continue
						}
						for _, hooks := range []string{"", "both"} {
							emit(Case{DelayNs: tol[0], SkewNs: tol[1], NowSec: fix.Epoch.Unix() + int64(ti), Layout: layout, Entry: entry, Lex: "lib", Resp: far, Asserts: []AssertionTimes{good()}, RespInstant: ri, AsrtInstant: ai, Hooks: hooks, AllowIDP: hooks != "", ArtSigned: entry == "artifact" && hooks != ""})
						}
					}
				}
			}
		}
	}
	for _, lm := range []int{-720, -300, -1, 1, 330, 840} {
		for _, lex := range []string{"lib", "zone", "zoneneg", "frac", "zoneless"} {
			for slot := 0; slot < 5; slot++ {
				for _, m := range []int64{ms, -ms, far, -far} {
					at := good()
					c := Case{DelayNs: int64(90 * time.Second), SkewNs: int64(180 * time.Second), NowSec: fix.Epoch.Unix(), Layout: "both", Entry: "xml", Lex: lex, Resp: far, LocalMin: lm}
					switch slot {
					case 0:
						c.Resp = m
					case 1:
						at.Issue = m
					case 2:
						at.NotBefore = m
					case 3:
						at.NotAfter = m
					case 4:
						at.Confs = []int64{m}
					}
					c.Asserts = []AssertionTimes{at}
					emit(c)
				}
			}
		}
	}
}

func enumLattice(tier string, emit func(Case)) {
	stride := 8 + 1 // 9: coprime to 4 and 6
	if tier == "thorough" {
		stride = 1
	}
	shapes := []string{"1conf", "2conf-last", "3conf-mid", "2assert-second", "2assert-first", "0conf"}
	idx := 0
	for ti, tol := range tolerances {
		for _, shape := range shapes {
			for li, layout := range []string{"assert", "resp"} {
				for _, enc := range []bool{false, true} {
					for _, r := range lattice {
						for _, is := range lattice {
							for _, nb := range lattice {
								for _, na := range lattice {
									for _, cf := range lattice {
										idx++
										if idx%stride != 0 {
											continue
										}
										if shape == "0conf" && cf != far {
											continue
										}
										c := Case{DelayNs: tol[0], SkewNs: tol[1], NowSec: fix.Epoch.Unix() + int64(ti), NowNsec: 0, Layout: layout, Entry: []string{"xml", "post", "artifact"}[(li+idx/stride)%3], Lex: "lib", Resp: r}
										c.NoDest = layout == "assert" && (idx/stride)%2 == 1
										c.AllowIDP = (idx/stride)%3 == 1
										c.Hooks = []string{"", "reqid", "", "audience", "both"}[(idx/stride)%5]
										c.LocalMin = []int{0, 0, -300, 540, 0, 60, -720}[(idx/stride)%7]
										c.ArtSigned = c.Entry == "artifact" && (idx/stride)%4 < 2
										if c.LocalMin != 0 && (idx/stride)%2 == 0 {
											c.Lex = "zoneless"
										}
										varied := AssertionTimes{Issue: is, NotBefore: nb, NotAfter: na, Confs: []int64{cf}, Encrypted: enc, ConfNB: (idx/stride)%11 < 4}
										good := AssertionTimes{Issue: far, NotBefore: far, NotAfter: far, Confs: []int64{far}, Encrypted: enc}
										switch shape {
										case "1conf":
											c.Asserts = []AssertionTimes{varied}
										case "0conf":
											varied.Confs = nil
											c.Asserts = []AssertionTimes{varied}
										case "2conf-last":
											varied.Confs = []int64{far, cf}
											varied.Methods = []string{"", []string{"", "hok", "sv"}[(idx/stride)%3]}
											c.Asserts = []AssertionTimes{varied}
										case "3conf-mid":
											varied.Confs = []int64{far, cf, far}
											c.Asserts = []AssertionTimes{varied}
										case "2assert-second":
											c.Asserts = []AssertionTimes{good, varied}
										case "2assert-first":
											c.Asserts = []AssertionTimes{varied, good}
										}
										emit(c)
									}
								}
							}
						}
					}
				}
			}
		}
	}
}

var prop = &pbt.Prop[Case]{
	ID: "C02",
	Rule: "cases: a genuinely IdP-signed response whose five kinds of instants (response/assertion IssueInstant, Conditions NotBefore/NotOnOrAfter, each confirmation NotOnOrAfter) are placed at a chosen signed distance from their boundary relative to the controlled library clock; " +
		"exhaustive lattice {far inside, 1 ms inside, 1 ms outside, far outside}^5 x 6 tolerance settings x 6 shapes (1/2/3 confirmations, two assertions with the varied one first or second, no confirmation) x signed layout (unsigned Responses with and without Destination) x plain/encrypted x AllowIDPInitiated on/off x application validators {none, request-ID, audience, both, all accepting} (complete in thorough, every 9th member in quick), on an SP under any trust configuration that may have served a login before, " +
		"plus rapid draws with arbitrary margins, tolerances 0..48 h, 1-3 assertions, 0-3 confirmations and lexical forms (zone offsets, 9 fractional digits, zone-less, sub-millisecond digits). " +
		"Response / Assertion IssueInstant may be absent or empty (no instant can then lie inside the window: must-reject), and the process's local zone (time.Local) may be any offset: zone-less instants are UTC wherever the SP runs. oracle: reference model on effective (millisecond-rounded) instants; margins inside (-1 ms, +1 ms) are don't-care. " +
		"non-trivial: some boundary within 2 ms, or margins on opposite sides, or non-default tolerances. distinct: sha256 of the JSON case.",
	Gen:   gen,
	Check: check,
	Reset: fix.Reset,
	Enums: []pbt.Enum[Case]{{Name: "boundary-lattice", Each: enumLattice}, {Name: "absent-instants-and-process-zones", Each: enumNoInstant}},
	Assumptions: []string{
		"equality exactly on a boundary and sub-millisecond bands are not judged",
		"all non-temporal conditions are valid in every case (audience, recipient, InResponseTo, issuer, destination, signature)",
	},
}

func TestCheck(t *testing.T) { pbt.Run(t, prop) }

func FuzzCheck(f *testing.F) { pbt.Fuzz(f, prop) }
