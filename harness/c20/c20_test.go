// Package c20: the bundled IdP server and its in-memory store under concurrent requests.
//
// Two harnesses, both property-based over schedules:
//
//	kind "sched"  controlled schedules: 2-4 requests run as goroutines against a Store
//	              wrapper that parks the caller before and after every store operation; the choice list of
//	              the case decides which parked request proceeds.  Deadlock is a state
//	              predicate over runtime.Stack snapshots (job "sched", TestCheck).
//	kind "mix"    the same request mixes free-running against the bare MemoryStore under
//	              the race detector (job "race", TestRace -> TestRaceWorker).
//	kind "store"  pure MemoryStore programs (<= 4 clients x 6 operations on <= 3 keys) under
//	              the race detector, their invoke/return history checked with porcupine.
//
// A single replay entry (`./check C20 --replay f`) goes to the race job (built with
// -race): TestRace re-executes the binary as TestRaceWorker, which dispatches on the
// case kind; a race report / fatal error of the child is turned into the VIOLATION line.
package c20

import (
	"bytes"
	"crypto/sha256"
	"encoding/json"
	"fmt"
	"math"
	"os"
	"os/exec"
	"path/filepath"
	"runtime"
	"sort"
	"strconv"
	"strings"
	"sync"
	"sync/atomic"
	"testing"
	"time"

	"github.com/anishathalye/porcupine"
	"github.com/crewjam/saml/samlidp"
	"pgregory.net/rapid"

	"verif/harness/internal/fix"
	"verif/harness/internal/idpsrv"
	"verif/harness/internal/pbt"
)

type Step = idpsrv.Step
type Cookie = idpsrv.Cookie

// StoreOp is one operation of a pure store program.
type StoreOp struct {
	// get put delete list, and two operations that must fail and leave the store usable:
	// put_bad (Val picks a value encoding/json cannot encode: +Inf, a channel, a func, a map
	// with bool keys) and get_bad (Val picks a target the stored JSON cannot be decoded into:
	// a *chan, a non-pointer, a *func)
	Op  string `json:"op"`
	Key int    `json:"key"` // index into storeKeys (list: index into storePrefixes)
	Val int    `json:"val,omitempty"`
}

// Case is a tagged union over the three harnesses.
type Case struct {
	Kind string `json:"kind"` // sched | mix | store
	Seed uint64 `json:"seed,omitempty"`
	// Init is written directly into the store before the server is created.
	Init []Step `json:"init,omitempty"`
	// Setup is applied sequentially before the concurrent phase: seed_session (a session
	// of user Name, Delta seconds old, written directly into the store), login (served),
	// clock.
	Setup []Step `json:"setup,omitempty"`
	// Reqs are the concurrent requests.
	Reqs []Step `json:"reqs,omitempty"`
	// Choices: sched only.  At every decision point with more than one parked request the
	// next choice (mod the number of parked requests, lowest request index first) picks
	// the one that proceeds; an exhausted list picks the lowest.
	Choices []int `json:"choices,omitempty"`
	// Clients: store programs; owners: client i works on its OWN keys /o<i>/a../c only.
	Clients [][]StoreOp `json:"clients,omitempty"`
	// Pre: store / owners: the prefix history of the long-lived store - puts and deletes
	// (key index < 3: storeKeys, otherwise /h/<index>) applied by one goroutine before the
	// concurrent phase starts on the SAME store.
	Pre []StoreOp `json:"pre,omitempty"`
	// Churn: sched / mix / errs: what the server's store went through before the server was
	// started on it - every entry toggles scratch object <index> (absent: Put, present:
	// Delete, a successful one); what is left at the end is deleted as well.
	Churn []int `json:"churn,omitempty"`
	// Iters: owners: how many times every client runs its operation list.
	Iters int `json:"iters,omitempty"`
	// Lister: owners: prefixes (0 "/", 1 "/h/", 2.. "/o<n-2>/") a further goroutine lists
	// round-robin while the owners run.
	Lister []int `json:"lister,omitempty"`
	// Prog: errs: a sequential request program on one long-lived server whose failing
	// requests are repeated.
	Prog []ErrReq `json:"prog,omitempty"`
}

// ErrReq is one entry of an errs program.
type ErrReq struct {
	// Fail: "" = ordinary request (Step).  Otherwise the class of a request that is meant to
	// fail and to change nothing: long-password (PUT /users/{Step.Name} with a password of
	// Len bytes, Var 1 = two-byte characters), bad-json (Step.Op put_user / put_shortcut /
	// put_service, body variant Var), bad-method (Var picks method and path), unknown-user,
	// wrong-password, missing-object, bad-sso (all four: Step is the request).
	Fail  string `json:"fail,omitempty"`
	Step  Step   `json:"step"`
	Len   int    `json:"len,omitempty"`
	Var   int    `json:"var,omitempty"`
	Rep   int    `json:"rep,omitempty"`   // failing requests: sent Rep times (1..8)
	Burst bool   `json:"burst,omitempty"` // the repetitions are sent at the same time
}

var storeKeys = []string{"/k/a", "/k/b", "/j/c"}
var storePrefixes = []string{"/k/", "/j/", "/"}

func excludeReentrant() bool { return os.Getenv("VERIF_EXCLUDE_REENTRANT_RLOCK") == "1" }
func excludeListRace() bool  { return os.Getenv("VERIF_EXCLUDE_LIST_RACE") == "1" }

// ---------------------------------------------------------------- goroutine snapshots

func goid() int64 {
	var buf [64]byte
	n := runtime.Stack(buf[:], false)
	s := buf[len("goroutine "):n]
	i := bytes.IndexByte(s, ' ')
	if i < 0 {
		return -1
	}
	id, _ := strconv.ParseInt(string(s[:i]), 10, 64)
	return id
}

var stackBuf = make([]byte, 1<<18)

// snapshot returns goroutine id -> wait reason, and the raw text of the listed ids.
func snapshot(want map[int64]bool) (map[int64]string, map[int64]string) {
	for {
		n := runtime.Stack(stackBuf, true)
		if n < len(stackBuf) {
			reasons, texts := map[int64]string{}, map[int64]string{}
			for _, blk := range bytes.Split(stackBuf[:n], []byte("\n\n")) {
				if !bytes.HasPrefix(blk, []byte("goroutine ")) {
					continue
				}
				line := blk
				if i := bytes.IndexByte(blk, '\n'); i >= 0 {
					line = blk[:i]
				}
				rest := line[len("goroutine "):]
				sp := bytes.IndexByte(rest, ' ')
				if sp < 0 {
					continue
				}
				id, err := strconv.ParseInt(string(rest[:sp]), 10, 64)
				if err != nil || !want[id] {
					continue
				}
				r := string(rest[sp+1:])
				r = strings.TrimPrefix(r, "[")
				if i := strings.IndexAny(r, ",]"); i >= 0 {
					r = r[:i]
				}
				reasons[id] = r
				texts[id] = string(blk)
			}
			return reasons, texts
		}
		stackBuf = make([]byte, 2*len(stackBuf))
	}
}

func mutexWait(reason string) bool {
	switch reason {
	case "sync.RWMutex.RLock", "sync.RWMutex.Lock", "sync.Mutex.Lock":
		return true
	}
	return false
}

// ---------------------------------------------------------------- controlled scheduler

const (
	stNew int32 = iota
	stParked
	stRunning
	stDone
)

type sreq struct {
	idx    int
	step   Step
	built  *idpsrv.Built
	gid    int64
	state  atomic.Int32
	parked string
	grant  chan struct{}
	reply  *idpsrv.Reply
	ops    []string // "op key" in program order
}

type scheduler struct {
	reqs  []*sreq
	mu    sync.Mutex
	byGid map[int64]*sreq
	abort chan struct{}
}

func (sc *scheduler) park(r *sreq, what string) {
	r.parked = what
	r.state.Store(stParked)
	select {
	case <-r.grant:
	case <-sc.abort:
	}
}

// before is the Store hook: the calling request parks until the schedule grants it.
func (sc *scheduler) before(op, key string) {
	g := goid()
	sc.mu.Lock()
	r := sc.byGid[g]
	sc.mu.Unlock()
	if r == nil {
		return
	}
	r.ops = append(r.ops, op+" "+key)
	sc.park(r, op+" "+key)
}

// after is the second Store hook: the request parks again once the operation has returned,
// so that the schedule also decides what happens between a store access and the handler's
// next step (a registry update, a lock acquisition, the reply).
func (sc *scheduler) after(op, key string) {
	g := goid()
	sc.mu.Lock()
	r := sc.byGid[g]
	sc.mu.Unlock()
	if r == nil {
		return
	}
	sc.park(r, "after-"+op+" "+key)
}

type schedOutcome struct {
	deadlock     string
	inconclusive string
	trace        []string
}

// quiescent waits until every unfinished request is parked at a store operation or
// blocked on a mutex; it returns the parked ones.  States are read BEFORE the snapshot:
// a parked request stays parked until granted, so the two observations are consistent.
func (sc *scheduler) quiescent(limit time.Duration) (parked []*sreq, blocked map[int64]string, texts map[int64]string, ok bool) {
	deadline := time.Now().Add(limit) // watchdog only: expiry = inconclusive, never a verdict
	for spin := 0; ; spin++ {
		parked = parked[:0]
		running := map[int64]bool{}
		for _, r := range sc.reqs {
			switch r.state.Load() {
			case stParked:
				parked = append(parked, r)
			case stRunning, stNew:
				running[r.gid] = true
			}
		}
		if len(running) == 0 {
			return parked, nil, nil, true
		}
		stable := spin >= 20 // first give the granted request a moment without stopping the world
		for g := range running {
			if g == 0 {
				stable = false // goroutine not registered yet
			}
		}
		if stable {
			reasons, tx := snapshot(running)
			for g := range running {
				if !mutexWait(reasons[g]) {
					stable = false
				}
			}
			if stable {
				return parked, reasons, tx, true
			}
		}
		if time.Now().After(deadline) {
			return nil, nil, nil, false
		}
		if spin < 20 {
			runtime.Gosched()
		} else {
			time.Sleep(50 * time.Microsecond)
		}
	}
}

func (sc *scheduler) run(env *idpsrv.Env, choices []int) schedOutcome {
	var out schedOutcome
	var wg sync.WaitGroup
	for _, r := range sc.reqs {
		r := r
		wg.Add(1)
		go func() {
			defer wg.Done()
			g := goid()
			sc.mu.Lock()
			sc.byGid[g] = r
			sc.mu.Unlock()
			atomic.StoreInt64(&r.gid, g)
			sc.park(r, "start")
			r.reply = env.Serve(r.built)
			r.state.Store(stDone)
		}()
	}
	// wait for registration
	for _, r := range sc.reqs {
		for atomic.LoadInt64(&r.gid) == 0 {
			runtime.Gosched()
		}
	}
	k := 0
	for {
		parked, blocked, texts, ok := sc.quiescent(20 * time.Second)
		if !ok {
			out.inconclusive = "no quiescent state reached within the watchdog"
			close(sc.abort)
			return out
		}
		unfinished := 0
		for _, r := range sc.reqs {
			if r.state.Load() != stDone {
				unfinished++
			}
		}
		if unfinished == 0 {
			break
		}
		if len(parked) == 0 {
			// quiescent, nothing grantable, some request unfinished: confirm the state twice
			// more (a state predicate, not a timeout) and report the deadlock
			confirmed := true
			for i := 0; i < 2 && confirmed; i++ {
				time.Sleep(time.Millisecond)
				p2, b2, t2, ok2 := sc.quiescent(20 * time.Second)
				if !ok2 || len(p2) != 0 || len(b2) != len(blocked) {
					confirmed = false
				}
				texts = t2
			}
			if !confirmed {
				continue
			}
			var b strings.Builder
			fmt.Fprintf(&b, "deadlock: no request is parked at a store operation, %d unfinished request(s) are blocked on mutexes and nobody can release them\n", unfinished)
			for _, r := range sc.reqs {
				if r.state.Load() == stDone {
					continue
				}
				js, _ := json.Marshal(r.step)
				fmt.Fprintf(&b, "request %d %s: wait state [%s], after store operations %v\n%s\n", r.idx, js, blocked[r.gid], r.ops, frames(texts[r.gid]))
			}
			out.deadlock = b.String()
			// the blocked goroutines cannot be released (the mutex is unexported); they leak
			return out
		}
		pick := 0
		if len(parked) > 1 {
			if k < len(choices) {
				pick = choices[k] % len(parked)
				if pick < 0 {
					pick = -pick
				}
			}
			k++
		}
		r := parked[pick]
		out.trace = append(out.trace, fmt.Sprintf("r%d:%s", r.idx, r.parked))
		r.state.Store(stRunning)
		r.grant <- struct{}{}
	}
	wg.Wait()
	return out
}

// frames keeps the function lines of a goroutine dump that belong to crewjam/saml or sync.
func frames(txt string) string {
	var out []string
	for _, l := range strings.Split(txt, "\n") {
		if strings.HasPrefix(l, "\t") || strings.HasPrefix(l, "goroutine ") {
			continue
		}
		if strings.Contains(l, "crewjam/saml") || strings.HasPrefix(l, "sync.") {
			if i := strings.LastIndex(l, "("); i > 0 {
				l = l[:i]
			}
			out = append(out, "    "+l)
		}
	}
	if len(out) > 8 {
		out = out[:8]
	}
	return strings.Join(out, "\n")
}

// ---------------------------------------------------------------- initial state and the relaxed oracle

type s0user struct {
	pw, profile int
}
type s0session struct {
	user    string
	profile int
	expired bool
}

type state0 struct {
	users     map[string]s0user
	services  map[string]int
	shortcuts map[string]string
	sessions  map[string]s0session
	hashes    [][]byte
}

// prepare seeds the store, starts the server and serves the sequential setup steps.
func prepare(c Case, raw bool) (*idpsrv.Env, *state0, string) {
	fix.Reset()
	env := idpsrv.NewEnv(c.Seed)
	env.Raw = raw
	s0 := &state0{users: map[string]s0user{}, services: map[string]int{}, shortcuts: map[string]string{}, sessions: map[string]s0session{}}
	applyChurn(env, c.Churn)
	for _, s := range c.Init {
		switch s.Op {
		case "seed_user":
			env.SeedUser(s.Name, s.Pw, s.Profile)
			pw := s.Pw
			if pw >= len(idpsrv.LowCostHashes) {
				pw = -1
			}
			s0.users[s.Name] = s0user{pw: pw, profile: s.Profile}
			if pw >= 0 {
				s0.hashes = append(s0.hashes, []byte(idpsrv.LowCostHashes[pw]))
			}
		case "put_service":
			if s.MD >= 0 && s.MD < len(idpsrv.Variants) {
				env.SeedService(s.Name, s.MD)
				s0.services[s.Name] = s.MD
			}
		case "put_shortcut":
			env.SeedShortcut(s)
			s0.shortcuts[s.Name] = idpsrv.Entities[clampI(s.Issuer, len(idpsrv.Entities))]
		}
	}
	if err := env.Start(); err != nil {
		return nil, nil, "samlidp.New failed: " + err.Error()
	}
	type made struct {
		id string
		at time.Time
	}
	var created []made
	for i, s := range c.Setup {
		switch s.Op {
		case "clock":
			env.Advance(s.Delta)
		case "seed_session":
			// Name = user, Delta = age in seconds; the id is fixed by the position
			u, ok := s0.users[s.Name]
			if !ok {
				continue
			}
			id := fmt.Sprintf("seeded-session-%d", i)
			env.SeedSession(id, s.Name, u.profile, s.Delta)
			s0.sessions[id] = s0session{user: s.Name, profile: u.profile, expired: s.Delta > 3600 || s.Delta < 0}
		case "login":
			b := env.Build(s)
			rep := env.Serve(b)
			fresh := env.NoteSessions()
			u, ok := s0.users[s.User]
			valid := ok && u.pw >= 0 && idpsrv.Passwords[u.pw] == formPassword(s) && s.Method != "GET"
			if len(fresh) > 0 && !valid {
				return nil, nil, fmt.Sprintf("setup step %d: a session was stored for a login without the user's password", i)
			}
			if rep.Panic != "" {
				return nil, nil, fmt.Sprintf("setup step %d: handler panicked: %s", i, rep.Panic)
			}
			for _, id := range fresh {
				s0.sessions[id] = s0session{user: s.User, profile: u.profile}
				created = append(created, made{id, env.Now})
			}
		}
	}
	for _, m := range created {
		if env.Now.After(m.at.Add(time.Hour)) || env.Now.Before(m.at) {
			x := s0.sessions[m.id]
			x.expired = true
			s0.sessions[m.id] = x
		}
	}
	return env, s0, ""
}

func formPassword(s Step) string {
	if s.Pw < 0 {
		return ""
	}
	return idpsrv.Passwords[clampI(s.Pw, len(idpsrv.Passwords))]
}

func clampI(i, n int) int {
	if i < 0 {
		return 0
	}
	if i >= n {
		return n - 1
	}
	return i
}

// judgeReplies applies the clauses that hold under every interleaving: one well-formed
// reply per request, no hash disclosed, and every SAMLResponse justified by credentials /
// a session and a registration that existed at some point of the concurrent phase.
func judgeReplies(c Case, s0 *state0, reqs []Step, built []*idpsrv.Built, replies []*idpsrv.Reply) string {
	for i, rep := range replies {
		s := reqs[i]
		js, _ := json.Marshal(s)
		bad := func(f string, a ...any) string {
			return fmt.Sprintf("request %d %s: %s", i, js, fmt.Sprintf(f, a...))
		}
		if rep == nil {
			return bad("no reply recorded")
		}
		if rep.Panic != "" {
			return bad("handler panicked: %s", rep.Panic)
		}
		if rep.NoReply {
			return bad("handler returned without writing a reply")
		}
		if rep.Explicit > 1 || rep.LateHeader {
			return bad("more than one reply (%d WriteHeader calls, late header %v)", rep.Explicit, rep.LateHeader)
		}
		if rep.Status < 200 || rep.Status > 599 {
			return bad("invalid status %d", rep.Status)
		}
		if rep.Malformed != "" {
			return bad("reply not well-formed: %s", rep.Malformed)
		}
		all := append([]byte(fmt.Sprint(rep.Header)), rep.Body...)
		for _, h := range s0.hashes {
			if idpsrv.LeaksHash(all, h) {
				return bad("reply discloses a stored password hash")
			}
		}
		if rep.Kind != "assertion" || rep.Assertion == nil {
			continue
		}
		a := rep.Assertion
		if s.Op != "sso" && s.Op != "launch" {
			return bad("SAMLResponse emitted by a request that is neither SSO nor a shortcut launch")
		}
		// authentication
		type subj struct {
			user    string
			profile int
		}
		var subjects []subj
		if s.User != "" && s.Method == "POST" {
			if u, ok := s0.users[s.User]; ok && u.pw >= 0 && idpsrv.Passwords[u.pw] == formPassword(s) {
				subjects = append(subjects, subj{s.User, u.profile})
				for _, o := range reqs {
					if o.Op == "put_user" && o.Name == s.User && !o.Bad {
						subjects = append(subjects, subj{s.User, o.Profile})
					}
				}
			}
		}
		if built[i].HasCookie {
			if ss, ok := s0.sessions[built[i].CookieVal]; ok && !ss.expired {
				subjects = append(subjects, subj{ss.user, ss.profile})
			}
		}
		if len(subjects) == 0 {
			return bad("SAMLResponse for NameID %q emitted to a request that carried neither a user's password nor the cookie of a stored unexpired session", a.NameID)
		}
		okS := false
		for _, sb := range subjects {
			p := idpsrv.ProfileOf(sb.user, sb.profile)
			if a.NameID == p.Email && idpsrv.AttrsEqual(a.Attrs, idpsrv.ExpectedAttrs(sb.user, sb.profile)) {
				okS = true
			}
		}
		if !okS {
			return bad("assertion describes NameID=%q attrs=%v, which is none of the possible users %v", a.NameID, a.Attrs, subjects)
		}
		// target
		entities := map[string]bool{}
		switch s.Op {
		case "sso":
			entities[idpsrv.Entities[clampI(s.Issuer, len(idpsrv.Entities))]] = true
		case "launch":
			if e, ok := s0.shortcuts[s.Name]; ok {
				entities[e] = true
			}
			for _, o := range reqs {
				if o.Op == "put_shortcut" && o.Name == s.Name && !o.Bad {
					entities[idpsrv.Entities[clampI(o.Issuer, len(idpsrv.Entities))]] = true
				}
			}
		}
		variants := []int{}
		for _, v := range s0.services {
			variants = append(variants, v)
		}
		for _, o := range reqs {
			if o.Op == "put_service" && !o.Bad && o.MD >= 0 && o.MD < len(idpsrv.Variants) {
				variants = append(variants, o.MD)
			}
		}
		okT := false
		for _, v := range variants {
			mv := idpsrv.Variants[v]
			if !entities[idpsrv.Entities[mv.Entity]] || a.Audience != idpsrv.Entities[mv.Entity] {
				continue
			}
			for _, ai := range mv.ACS {
				if idpsrv.ACS[ai] == rep.FormAction {
					okT = true
				}
			}
		}
		if !okT {
			return bad("SAMLResponse towards %q / audience %q, which is no ACS of any registration of the request's target at any point of the schedule", rep.FormAction, a.Audience)
		}
		if a.Destination != rep.FormAction || a.Recipient != rep.FormAction {
			return bad("form action %q, Destination %q and Recipient %q differ", rep.FormAction, a.Destination, a.Recipient)
		}
	}
	return ""
}

func touchesRegistry(s Step) (touch, write bool) {
	switch s.Op {
	case "sso", "launch", "metadata":
		return true, false
	case "put_service", "del_service":
		return true, true
	}
	return false, false
}

func hasReentrantClass(reqs []Step) bool {
	launch, writer := false, false
	for _, s := range reqs {
		if s.Op == "launch" {
			launch = true
		}
		if s.Op == "put_service" || s.Op == "del_service" {
			writer = true
		}
	}
	return launch && writer
}

func hasListRaceClass(reqs []Step) bool {
	list, writer := false, false
	for _, s := range reqs {
		switch s.Op {
		case "list_users", "list_services", "list_sessions", "list_shortcuts":
			list = true
		case "put_user", "del_user", "put_service", "del_service", "put_shortcut", "del_shortcut", "del_session":
			writer = true
		case "login", "sso":
			if s.User != "" {
				writer = true // may store a session
			}
		}
	}
	return list && writer
}

func checkSched(c Case) pbt.Result {
	if len(c.Reqs) < 2 || len(c.Reqs) > 4 {
		return pbt.Result{Skip: true}
	}
	if excludeReentrant() && hasReentrantClass(c.Reqs) {
		return pbt.Result{Skip: true}
	}
	env, s0, perr := prepare(c, false)
	if perr != "" {
		return pbt.Result{Err: perr, NonTrivial: true, Classes: []string{"sched"}}
	}
	sc := &scheduler{byGid: map[int64]*sreq{}, abort: make(chan struct{})}
	var built []*idpsrv.Built
	for i, s := range c.Reqs {
		if !s.IsRequest() {
			return pbt.Result{Skip: true}
		}
		b := env.Build(s)
		if b == nil {
			return pbt.Result{Skip: true}
		}
		built = append(built, b)
		sc.reqs = append(sc.reqs, &sreq{idx: i, step: s, built: b, grant: make(chan struct{})})
	}
	env.Store.Before = sc.before
	env.Store.After = sc.after
	env.Store.Counting(true)
	out := sc.run(env, c.Choices)
	res := pbt.Result{Classes: []string{"sched", fmt.Sprintf("sched:%d-requests", len(c.Reqs))}}
	if os.Getenv("VERIF_C20_TRACE") == "1" {
		fmt.Printf("TRACE grants: %s | deadlock=%v inconclusive=%q\n", strings.Join(out.trace, " "), out.deadlock != "", out.inconclusive)
	}
	if out.inconclusive != "" {
		return pbt.Result{Skip: true}
	}
	// non-trivial: two requests that both touch the registry lock or the same store key, one a writer
	touchers, writers := 0, 0
	for _, s := range c.Reqs {
		t, w := touchesRegistry(s)
		if t {
			touchers++
		}
		if w {
			writers++
		}
	}
	if touchers >= 2 && writers >= 1 {
		res.NonTrivial = true
		res.Classes = append(res.Classes, "sched:registry-reader/writer-overlap")
	}
	keyWriters, keyUsers := map[string]map[int]bool{}, map[string]map[int]bool{}
	for _, r := range sc.reqs {
		for _, o := range r.ops {
			f := strings.SplitN(o, " ", 2)
			if keyUsers[f[1]] == nil {
				keyUsers[f[1]], keyWriters[f[1]] = map[int]bool{}, map[int]bool{}
			}
			keyUsers[f[1]][r.idx] = true
			if f[0] == "put" || f[0] == "delete" {
				keyWriters[f[1]][r.idx] = true
			}
		}
	}
	for k, us := range keyUsers {
		if len(us) >= 2 && len(keyWriters[k]) >= 1 {
			res.NonTrivial = true
			res.Classes = append(res.Classes, "sched:same-store-key-with-writer")
			break
		}
	}
	kinds := map[string]bool{}
	for _, s := range c.Reqs {
		kinds["sched:req:"+s.Op] = true
	}
	for k := range kinds {
		res.Classes = append(res.Classes, k)
	}
	interleaved := false
	for i := 1; i < len(out.trace)-1; i++ {
		a, b, d := out.trace[i-1][:2], out.trace[i][:2], out.trace[i+1][:2]
		if a != b && a == d {
			interleaved = true
		}
	}
	if interleaved {
		res.Classes = append(res.Classes, "sched:interleaved-inside-a-request")
	}
	if out.deadlock != "" {
		res.Err = out.deadlock + "grants: " + strings.Join(out.trace, " ")
		res.NonTrivial = true
		res.Classes = append(res.Classes, "sched:deadlock")
		sort.Strings(res.Classes)
		return res
	}
	var replies []*idpsrv.Reply
	for _, r := range sc.reqs {
		replies = append(replies, r.reply)
		if r.reply != nil && r.reply.Kind == "assertion" {
			res.Classes = append(res.Classes, "sched:assertion-issued")
		}
	}
	if msg := judgeReplies(c, s0, c.Reqs, built, replies); msg != "" {
		res.Err = msg + "\ngrants: " + strings.Join(out.trace, " ")
		res.NonTrivial = true
	}
	sort.Strings(res.Classes)
	return res
}

// ---------------------------------------------------------------- free-running mixes (race job)

func repetitions(kind string) int {
	if os.Getenv("VERIF_REPLAY") != "" {
		return 200
	}
	if kind == "mix" {
		return 1
	}
	return 3
}

func checkMix(c Case) pbt.Result {
	if len(c.Reqs) < 2 || len(c.Reqs) > 6 {
		return pbt.Result{Skip: true}
	}
	if excludeListRace() && hasListRaceClass(c.Reqs) {
		return pbt.Result{Skip: true}
	}
	res := pbt.Result{Classes: []string{"mix", fmt.Sprintf("mix:%d-requests", len(c.Reqs))}}
	touchers, writers := 0, 0
	for _, s := range c.Reqs {
		t, w := touchesRegistry(s)
		if t {
			touchers++
		}
		if w {
			writers++
		}
		res.Classes = append(res.Classes, "mix:req:"+s.Op)
	}
	if (touchers >= 2 && writers >= 1) || hasListRaceClass(c.Reqs) {
		res.NonTrivial = true
	}
	for rep := 0; rep < repetitions("mix"); rep++ {
		env, s0, perr := prepare(c, true)
		if perr != "" {
			res.Err = perr
			return res
		}
		var built []*idpsrv.Built
		for _, s := range c.Reqs {
			b := env.Build(s)
			if b == nil || !s.IsRequest() {
				return pbt.Result{Skip: true}
			}
			built = append(built, b)
		}
		replies := make([]*idpsrv.Reply, len(built))
		finished := make([]atomic.Bool, len(built))
		gids := make([]int64, len(built))
		var done atomic.Int32
		start := make(chan struct{})
		for i := range built {
			i := i
			go func() {
				atomic.StoreInt64(&gids[i], goid())
				<-start
				r := env.Serve(built[i])
				replies[i] = r
				finished[i].Store(true)
				done.Add(1)
			}()
		}
		close(start)
		deadline := time.Now().Add(30 * time.Second) // watchdog: expiry alone is never a verdict
		stuck := 0
		for int(done.Load()) < len(built) {
			time.Sleep(100 * time.Microsecond)
			if time.Now().After(deadline) {
				return pbt.Result{Skip: true}
			}
			// deadlock predicate: every unfinished request is blocked on a mutex, repeatedly
			if time.Until(deadline) < 29*time.Second {
				want := map[int64]bool{}
				for i := range built {
					if !finished[i].Load() {
						want[atomic.LoadInt64(&gids[i])] = true
					}
				}
				reasons, texts := snapshot(want)
				all := len(want) > 0
				for g := range want {
					if !mutexWait(reasons[g]) {
						all = false
					}
				}
				if all && int(done.Load()) < len(built) {
					stuck++
					time.Sleep(5 * time.Millisecond)
					if stuck >= 20 {
						var b strings.Builder
						b.WriteString("deadlock in a free-running mix: every unfinished request is blocked on a mutex\n")
						for g := range want {
							b.WriteString(frames(texts[g]) + "\n")
						}
						res.Err = b.String()
						res.Classes = append(res.Classes, "mix:deadlock")
						if out := os.Getenv("VERIF_OUT"); out != "" {
							// the blocked goroutines leak: later race reports of this process are tainted
							_ = os.WriteFile(filepath.Join(out, "deadlock-seen"), []byte("1"), 0o644)
							// keep the verdict where the parent process finds it: while rapid shrinks this
							// failure, a (tainted) race report may kill the worker before the violation is
							// written through the normal path
							if _, serr := os.Stat(filepath.Join(out, "deadlock-case.json")); serr != nil {
								if js, jerr := json.Marshal(c); jerr == nil {
									_ = os.WriteFile(filepath.Join(out, "deadlock-case.json"), js, 0o644)
									_ = os.WriteFile(filepath.Join(out, "deadlock-msg.txt"), []byte(res.Err), 0o644)
								}
							}
						}
						return res
					}
				} else {
					stuck = 0
				}
			}
		}
		if msg := judgeReplies(c, s0, c.Reqs, built, replies); msg != "" {
			res.Err = msg
			return res
		}
		for _, r := range replies {
			if r.Kind == "assertion" {
				res.Classes = append(res.Classes, "mix:assertion-issued")
				break
			}
		}
	}
	return res
}

// ---------------------------------------------------------------- store programs + porcupine

type sIn struct {
	Op  string
	Key string
	Val int
}
type sOut struct {
	Found bool
	Val   int
	Keys  string
	Err   string
}

var kvModel = porcupine.Model{
	Init: func() interface{} { return "" },
	Step: func(state, input, output interface{}) (bool, interface{}) {
		st := decodeState(state.(string))
		in, out := input.(sIn), output.(sOut)
		switch in.Op {
		case "get":
			v, ok := st[in.Key]
			if out.Err != "" {
				return false, state
			}
			return out.Found == ok && (!ok || out.Val == v), state
		case "put":
			if out.Err != "" {
				return false, state
			}
			st[in.Key] = in.Val
			return true, encodeState(st)
		case "delete":
			if out.Err != "" {
				return false, state
			}
			delete(st, in.Key)
			return true, encodeState(st)
		case "put_bad", "get_bad":
			// must report an error (get_bad on an absent key: not-found is one) and change nothing
			return out.Err != "", state
		case "list":
			var ks []string
			for k := range st {
				if strings.HasPrefix(k, in.Key) {
					ks = append(ks, strings.TrimPrefix(k, in.Key))
				}
			}
			sort.Strings(ks)
			return out.Err == "" && out.Keys == strings.Join(ks, ","), state
		}
		return false, state
	},
	Equal: func(a, b interface{}) bool { return a.(string) == b.(string) },
	DescribeOperation: func(input, output interface{}) string {
		return fmt.Sprintf("%+v -> %+v", input, output)
	},
}

func decodeState(s string) map[string]int {
	m := map[string]int{}
	if s == "" {
		return m
	}
	for _, kv := range strings.Split(s, ";") {
		f := strings.SplitN(kv, "=", 2)
		v, _ := strconv.Atoi(f[1])
		m[f[0]] = v
	}
	return m
}

func encodeState(m map[string]int) string {
	var ks []string
	for k := range m {
		ks = append(ks, k)
	}
	sort.Strings(ks)
	for i, k := range ks {
		ks[i] = fmt.Sprintf("%s=%d", k, m[k])
	}
	return strings.Join(ks, ";")
}

func checkStore(c Case) pbt.Result {
	if len(c.Clients) < 1 || len(c.Clients) > 4 {
		return pbt.Result{Skip: true}
	}
	res := pbt.Result{Classes: []string{"store", fmt.Sprintf("store:%d-clients", len(c.Clients))}}
	writers, readers, lists := 0, 0, 0
	failing := false
	for _, cl := range c.Clients {
		if len(cl) > 6 {
			return pbt.Result{Skip: true}
		}
		w, r, l := false, false, false
		for _, o := range cl {
			switch o.Op {
			case "put", "delete":
				w = true
			case "get":
				r = true
			case "list":
				l = true
			case "put_bad", "get_bad":
				failing = true
			}
		}
		if w {
			writers++
		}
		if r {
			readers++
		}
		if l {
			lists++
		}
	}
	if excludeListRace() && lists > 0 && writers > 0 {
		return pbt.Result{Skip: true}
	}
	if len(c.Clients) >= 2 && writers >= 1 && writers+readers+lists >= 2 {
		res.NonTrivial = true
	}
	if lists > 0 && writers > 0 {
		res.Classes = append(res.Classes, "store:list-with-writer")
	}
	if failing {
		res.Classes = append(res.Classes, "store:with-failing-operation")
		res.NonTrivial = true
	}
	if len(c.Pre) > 64 {
		return pbt.Result{Skip: true}
	}
	res.Classes = append(res.Classes, "store:prefix-history:"+bucket(preDeletes(c.Pre))+"-successful-deletes")
	for rep := 0; rep < repetitions("store"); rep++ {
		st := &samlidp.MemoryStore{}
		var clock atomic.Int64
		hist := make([][]porcupine.Operation, len(c.Clients)+1)
		// the prefix history of the long-lived store: one more (sequential) client whose
		// operations all return before the concurrent phase begins
		for _, o := range c.Pre {
			in := sIn{Op: o.Op, Key: keyName(o.Key), Val: o.Val}
			var out sOut
			call := clock.Add(1)
			var err error
			switch o.Op {
			case "put":
				err = st.Put(in.Key, o.Val)
			case "delete":
				err = st.Delete(in.Key)
			default:
				continue
			}
			if err != nil {
				out.Err = err.Error()
			}
			hist[len(c.Clients)] = append(hist[len(c.Clients)], porcupine.Operation{ClientId: len(c.Clients), Input: in, Call: call, Output: out, Return: clock.Add(1)})
		}
		start := make(chan struct{})
		gids := make([]int64, len(c.Clients))
		finished := make([]atomic.Bool, len(c.Clients))
		for ci, cl := range c.Clients {
			ci, cl := ci, cl
			go func() {
				defer finished[ci].Store(true)
				atomic.StoreInt64(&gids[ci], goid())
				<-start
				for _, o := range cl {
					in := sIn{Op: o.Op, Val: o.Val}
					var out sOut
					call := clock.Add(1)
					switch o.Op {
					case "get":
						in.Key = storeKeys[clampI(o.Key, len(storeKeys))]
						var v int
						err := st.Get(in.Key, &v)
						switch err {
						case nil:
							out.Found, out.Val = true, v
						case samlidp.ErrNotFound:
						default:
							out.Err = err.Error()
						}
					case "put":
						in.Key = storeKeys[clampI(o.Key, len(storeKeys))]
						if err := st.Put(in.Key, o.Val); err != nil {
							out.Err = err.Error()
						}
					case "delete":
						in.Key = storeKeys[clampI(o.Key, len(storeKeys))]
						if err := st.Delete(in.Key); err != nil {
							out.Err = err.Error()
						}
					case "put_bad":
						in.Key = storeKeys[clampI(o.Key, len(storeKeys))]
						var v interface{}
						switch o.Val % 4 {
						case 0:
							v = math.Inf(1)
						case 1:
							v = make(chan int)
						case 2:
							v = func() {}
						default:
							v = map[bool]int{true: 1}
						}
						if err := st.Put(in.Key, v); err != nil {
							out.Err = err.Error()
						}
					case "get_bad":
						in.Key = storeKeys[clampI(o.Key, len(storeKeys))]
						var err error
						switch o.Val % 3 {
						case 0:
							err = st.Get(in.Key, new(chan int))
						case 1:
							err = st.Get(in.Key, 7) // not a pointer
						default:
							err = st.Get(in.Key, new(func()))
						}
						if err != nil {
							out.Err = err.Error()
						}
					case "list":
						in.Key = storePrefixes[clampI(o.Key, len(storePrefixes))]
						ks, err := st.List(in.Key)
						if err != nil {
							out.Err = err.Error()
						}
						ks = append([]string(nil), ks...)
						sort.Strings(ks)
						out.Keys = strings.Join(ks, ",")
					default:
						continue
					}
					ret := clock.Add(1)
					hist[ci] = append(hist[ci], porcupine.Operation{ClientId: ci, Input: in, Call: call, Output: out, Return: ret})
				}
			}()
		}
		close(start)
		// wait for the clients; a client blocked on a mutex nobody can release is a deadlock
		// (state predicate over goroutine headers, confirmed repeatedly) - the 30 s watchdog
		// alone only makes the case inconclusive
		deadline := time.Now().Add(30 * time.Second)
		stuck := 0
		for {
			want := map[int64]bool{}
			for i := range finished {
				if !finished[i].Load() {
					want[atomic.LoadInt64(&gids[i])] = true
				}
			}
			if len(want) == 0 {
				break
			}
			if time.Now().After(deadline) {
				return pbt.Result{Skip: true}
			}
			time.Sleep(200 * time.Microsecond)
			if time.Until(deadline) > 29900*time.Millisecond {
				continue
			}
			reasons, texts := snapshot(want)
			all := true
			for g := range want {
				if g == 0 || !mutexWait(reasons[g]) {
					all = false
				}
			}
			if !all {
				stuck = 0
				continue
			}
			stuck++
			time.Sleep(2 * time.Millisecond)
			if stuck >= 15 {
				var b strings.Builder
				fmt.Fprintf(&b, "deadlock in a store program: %d client(s) are blocked on the store's mutex and every other client has finished - a lock was left held\n", len(want))
				for g := range want {
					b.WriteString(frames(texts[g]) + "\n")
				}
				js, _ := json.Marshal(c.Clients)
				b.WriteString("program: " + string(js))
				res.Err = b.String()
				res.Classes = append(res.Classes, "store:deadlock")
				if out := os.Getenv("VERIF_OUT"); out != "" && os.Getenv("VERIF_RACE_WORKER") == "1" {
					_ = os.WriteFile(filepath.Join(out, "deadlock-seen"), []byte("1"), 0o644)
				}
				return res
			}
		}
		var ops []porcupine.Operation
		for _, h := range hist {
			ops = append(ops, h...)
		}
		if r := porcupine.CheckOperationsTimeout(kvModel, ops, 20*time.Second); r == porcupine.Illegal {
			var b strings.Builder
			b.WriteString("MemoryStore history is not linearizable with respect to a key-value map:\n")
			sort.Slice(ops, func(i, j int) bool { return ops[i].Call < ops[j].Call })
			for _, o := range ops {
				fmt.Fprintf(&b, "  client %d [%d,%d] %+v -> %+v\n", o.ClientId, o.Call, o.Return, o.Input, o.Output)
			}
			res.Err = b.String()
			return res
		}
	}
	return res
}

func check(c Case) pbt.Result {
	var r pbt.Result
	switch c.Kind {
	case "sched":
		r = checkSched(c)
	case "mix":
		r = checkMix(c)
	case "store":
		r = checkStore(c)
	case "owners":
		r = checkOwners(c)
	case "errs":
		r = checkErrs(c)
	default:
		return pbt.Result{Skip: true}
	}
	if !r.Skip && (c.Kind == "sched" || c.Kind == "mix" || c.Kind == "errs") {
		r.Classes = append(r.Classes, "server-store-history:"+bucket(churnDeletes(c.Churn))+"-successful-deletes")
	}
	seen := map[string]bool{}
	var cl []string
	for _, k := range r.Classes {
		if !seen[k] {
			seen[k] = true
			cl = append(cl, k)
		}
	}
	sort.Strings(cl)
	r.Classes = cl
	return r
}

// ---------------------------------------------------------------- generators

func pick[T any](t *rapid.T, label string, xs []T) T { return rapid.SampledFrom(xs).Draw(t, label) }

type world struct {
	users     map[string]int // name -> pw (-1 none)
	services  map[string]int
	shortcuts map[string]int
	nsess     int
	dead      map[int]bool
	perEntity []int // the one metadata variant per entity this world uses
}

// genWorld draws the seeded state and the sequential setup.
func genWorld(t *rapid.T, c *Case) *world {
	w := &world{users: map[string]int{}, services: map[string]int{}, shortcuts: map[string]int{}, dead: map[int]bool{}}
	nu := rapid.IntRange(1, 3).Draw(t, "nusers")
	for i := 0; i < nu; i++ {
		s := Step{Op: "seed_user", Name: idpsrv.UserNames[i], Pw: pick(t, "pw", []int{0, 1, 2, 0, 1, -1}), Profile: rapid.IntRange(0, 2).Draw(t, "profile")}
		if i == 0 && s.Pw < 0 {
			s.Pw = 0
		}
		c.Init = append(c.Init, s)
		w.users[s.Name] = s.Pw
	}
	// Seeded services never share an entity ID with different metadata: which of two such
	// registrations a freshly started server uses depends on map iteration order in the
	// code under test, and a schedule must replay deterministically.
	// (variants 4 and 5 are the ones with everything real SPs publish: several descriptors,
	// attribute consuming services, ResponseLocation, further role descriptors)
	perEntity := []int{pick(t, "variant-e0", []int{0, 1, 4, 4}), pick(t, "variant-e1", []int{2, 3, 5, 5})}
	w.perEntity = perEntity
	ns := rapid.IntRange(1, 3).Draw(t, "nservices")
	for i := 0; i < ns; i++ {
		s := Step{Op: "put_service", Name: idpsrv.ServiceNames[i], MD: perEntity[rapid.IntRange(0, 1).Draw(t, "entity")], Pw: -1}
		c.Init = append(c.Init, s)
		w.services[s.Name] = s.MD
	}
	nc := rapid.IntRange(1, 2).Draw(t, "nshortcuts")
	for i := 0; i < nc; i++ {
		var ents []int
		for _, v := range w.services {
			ents = append(ents, idpsrv.Variants[v].Entity)
		}
		sort.Ints(ents)
		s := Step{Op: "put_shortcut", Name: idpsrv.ShortcutNames[i], Issuer: pick(t, "sp", append(ents, ents[0], 2)), Relay: rapid.IntRange(0, 2).Draw(t, "relay"), Pw: -1}
		c.Init = append(c.Init, s)
		w.shortcuts[s.Name] = s.Issuer
	}
	// setup: 1-2 sessions (seeded: no password hashing needed), sometimes an expired one,
	// sometimes created by a served login instead
	nl := rapid.IntRange(1, 2).Draw(t, "nsessions")
	for i := 0; i < nl; i++ {
		var cands []string
		for _, n := range idpsrv.UserNames {
			if pw, ok := w.users[n]; ok && pw >= 0 {
				cands = append(cands, n)
			}
		}
		u := pick(t, "session-user", cands)
		switch k := rapid.IntRange(0, 9).Draw(t, "session-class"); {
		case k == 0:
			c.Setup = append(c.Setup, Step{Op: "login", Method: "POST", User: u, Pw: w.users[u]})
		case k <= 2:
			c.Setup = append(c.Setup, Step{Op: "seed_session", Name: u, Delta: 3700, Pw: -1})
			w.dead[i] = true
		default:
			c.Setup = append(c.Setup, Step{Op: "seed_session", Name: u, Delta: pick(t, "age", []int64{0, 60, 3500}), Pw: -1})
		}
		w.nsess++
	}
	return w
}

func (w *world) genCookie(t *rapid.T) Cookie {
	switch k := rapid.IntRange(0, 9).Draw(t, "cookie-class"); {
	case k <= 7:
		return Cookie{Kind: "session", Idx: rapid.IntRange(0, w.nsess-1).Draw(t, "sess")}
	case k == 8:
		return Cookie{Kind: "forged", Val: "forged"}
	}
	return Cookie{}
}

func sortedKeys[V any](m map[string]V) []string {
	var out []string
	for k := range m {
		out = append(out, k)
	}
	sort.Strings(out)
	return out
}

// genReq draws one concurrent request, mostly aimed at what exists.
func (w *world) genReq(t *rapid.T) Step {
	s := Step{Pw: -1}
	ent := func() int {
		var ents []int
		for _, n := range sortedKeys(w.services) {
			ents = append(ents, idpsrv.Variants[w.services[n]].Entity)
		}
		if rapid.IntRange(0, 9).Draw(t, "issuer-class") < 8 {
			return pick(t, "issuer", ents)
		}
		return rapid.IntRange(0, 2).Draw(t, "issuer")
	}
	switch cls := rapid.IntRange(0, 19).Draw(t, "req-class"); {
	case cls < 4:
		return w.genFailing(t)
	case cls < 7:
		return w.genReader(t)
	}
	switch k := rapid.IntRange(0, 99).Draw(t, "req"); {
	case k < 22:
		s.Op = "sso"
		s.Issuer = ent()
		var acs []int
		for _, v := range idpsrv.Variants {
			if v.Entity == s.Issuer {
				acs = append(acs, v.ACS...)
			}
		}
		if len(acs) > 0 && rapid.IntRange(0, 9).Draw(t, "acs-class") < 8 {
			s.ACS = pick(t, "acs", acs)
		} else {
			s.ACS = rapid.IntRange(-1, len(idpsrv.ACS)-1).Draw(t, "acs")
		}
		if rapid.Bool().Draw(t, "creds") {
			s.Method = "POST"
			s.User = pick(t, "user", sortedKeys(w.users))
			s.Pw = w.users[s.User]
			if rapid.IntRange(0, 4).Draw(t, "wrong") == 0 {
				s.Pw = rapid.IntRange(0, 3).Draw(t, "pw")
			}
		} else {
			s.Method = pick(t, "method", []string{"GET", "POST"})
			s.Cookie = w.genCookie(t)
		}
	case k < 40:
		s.Op = "launch"
		s.Name = pick(t, "shortcut", append(sortedKeys(w.shortcuts), sortedKeys(w.shortcuts)[0], idpsrv.ShortcutNames[1]))
		s.Method = "GET"
		s.Cookie = w.genCookie(t)
		if rapid.IntRange(0, 3).Draw(t, "suffix") == 0 {
			s.Suffix = "sfx"
		}
	case k < 45:
		s.Op = "login"
		s.Method = "POST"
		s.User = pick(t, "user", sortedKeys(w.users))
		s.Pw = w.users[s.User]
	case k < 60:
		s.Op = "put_service"
		s.Name = pick(t, "service", idpsrv.ServiceNames)
		s.MD = rapid.IntRange(0, len(idpsrv.Variants)-1).Draw(t, "md")
		s.Method = pick(t, "method", []string{"PUT", "POST"})
	case k < 68:
		s.Op = "del_service"
		s.Name = pick(t, "service", idpsrv.ServiceNames)
	case k < 72:
		s.Op = pick(t, "svc-read", []string{"get_service", "list_services"})
		s.Name = pick(t, "service", idpsrv.ServiceNames)
	case k < 77:
		s.Op = "put_user"
		s.Name = pick(t, "user", idpsrv.UserNames)
		s.Profile = rapid.IntRange(0, idpsrv.NProfiles-1).Draw(t, "profile")
	case k < 80:
		s.Op = "del_user"
		s.Name = pick(t, "user", idpsrv.UserNames)
	case k < 83:
		s.Op = pick(t, "user-read", []string{"get_user", "list_users"})
		s.Name = pick(t, "user", idpsrv.UserNames)
	case k < 87:
		s.Op = "put_shortcut"
		s.Name = pick(t, "shortcut", idpsrv.ShortcutNames)
		s.Issuer = ent()
		s.Relay = rapid.IntRange(0, 2).Draw(t, "relay")
	case k < 90:
		s.Op = "del_shortcut"
		s.Name = pick(t, "shortcut", idpsrv.ShortcutNames)
	case k < 94:
		s.Op = "del_session"
		s.Session = Cookie{Kind: "session", Idx: rapid.IntRange(0, w.nsess-1).Draw(t, "sess")}
	case k < 97:
		s.Op = pick(t, "sess-read", []string{"get_session", "list_sessions", "list_shortcuts", "get_shortcut"})
		s.Session = Cookie{Kind: "session", Idx: rapid.IntRange(0, w.nsess-1).Draw(t, "sess")}
		s.Name = idpsrv.ShortcutNames[0]
	default:
		s.Op = "metadata"
	}
	return s
}

// genFailing draws a request that is meant to fail: every error path of every handler must
// be reachable next to the others, so that a lock or a half-made change left behind shows.
func (w *world) genFailing(t *rapid.T) Step {
	s := Step{Pw: -1}
	user := pick(t, "user", sortedKeys(w.users))
	switch pick(t, "failing", []string{"del-missing-service", "del-missing-user", "del-missing-session", "del-missing-shortcut", "bad-service", "bad-user", "bad-shortcut",
		"login-wrong-password", "sso-wrong-password", "sso-unknown-issuer", "sso-foreign-acs", "launch-missing-shortcut", "launch-forged-cookie", "launch-expired-or-any",
		"get-missing-user", "get-missing-service", "get-missing-shortcut", "get-missing-session", "sso-unknown-user"}) {
	case "del-missing-service":
		s.Op, s.Name = "del_service", "no-such-service"
	case "del-missing-user":
		s.Op, s.Name = "del_user", "nobody"
	case "del-missing-session":
		s.Op, s.Session = "del_session", Cookie{Kind: "forged", Val: "no/such+session="}
	case "del-missing-shortcut":
		s.Op, s.Name = "del_shortcut", "no-such-shortcut"
	case "bad-service":
		s.Op, s.Name, s.Bad = "put_service", pick(t, "service", idpsrv.ServiceNames), true
		s.Method = pick(t, "method", []string{"PUT", "POST"})
	case "bad-user":
		s.Op, s.Name, s.Bad = "put_user", pick(t, "user-name", idpsrv.UserNames), true
	case "bad-shortcut":
		s.Op, s.Name, s.Bad = "put_shortcut", pick(t, "shortcut", idpsrv.ShortcutNames), true
	case "login-wrong-password":
		s.Op, s.Method, s.User, s.Pw = "login", "POST", user, (w.users[user]+1)%3
	case "sso-wrong-password":
		s.Op, s.Method, s.User, s.Pw = "sso", "POST", user, (w.users[user]+1)%3
		s.Issuer = idpsrv.Variants[w.services[sortedKeys(w.services)[0]]].Entity
		s.ACS = idpsrv.Variants[w.services[sortedKeys(w.services)[0]]].ACS[0]
	case "sso-unknown-user":
		s.Op, s.Method, s.User, s.Pw = "sso", "POST", "nobody", 0
		s.Issuer = idpsrv.Variants[w.services[sortedKeys(w.services)[0]]].Entity
		s.ACS = idpsrv.Variants[w.services[sortedKeys(w.services)[0]]].ACS[0]
	case "sso-unknown-issuer":
		s.Op, s.Method, s.Issuer, s.ACS, s.Cookie = "sso", "GET", 2, 0, w.genCookie(t)
	case "sso-foreign-acs":
		s.Op, s.Method, s.ACS, s.Cookie = "sso", "GET", 4, w.genCookie(t)
		s.Issuer = idpsrv.Variants[w.services[sortedKeys(w.services)[0]]].Entity
	case "launch-missing-shortcut":
		s.Op, s.Name, s.Method, s.Cookie = "launch", "no-such-shortcut", "GET", w.genCookie(t)
	case "launch-forged-cookie":
		s.Op, s.Name, s.Method, s.Cookie = "launch", sortedKeys(w.shortcuts)[0], "GET", Cookie{Kind: "forged", Val: "forged"}
	case "launch-expired-or-any":
		s.Op, s.Name, s.Method = "launch", sortedKeys(w.shortcuts)[0], "POST"
		s.User, s.Pw = user, w.users[user] // credentials a launch never reads
	case "get-missing-user":
		s.Op, s.Name = "get_user", "nobody"
	case "get-missing-service":
		s.Op, s.Name = "get_service", "no-such-service"
	case "get-missing-shortcut":
		s.Op, s.Name = "get_shortcut", "no-such-shortcut"
	case "get-missing-session":
		s.Op, s.Session = "get_session", Cookie{Kind: "forged", Val: "nope"}
	}
	return s
}

// genReader draws a GET / list request: a concurrent reader for every other handler.
func (w *world) genReader(t *rapid.T) Step {
	s := Step{Pw: -1}
	s.Op = pick(t, "reader", []string{"get_user", "list_users", "get_service", "list_services", "get_shortcut", "list_shortcuts", "get_session", "list_sessions", "metadata", "login-get"})
	switch s.Op {
	case "get_user":
		s.Name = pick(t, "user", idpsrv.UserNames)
	case "get_service":
		s.Name = pick(t, "service", idpsrv.ServiceNames)
	case "get_shortcut":
		s.Name = pick(t, "shortcut", idpsrv.ShortcutNames)
	case "get_session":
		s.Session = Cookie{Kind: "session", Idx: rapid.IntRange(0, w.nsess-1).Draw(t, "sess")}
	case "login-get":
		s.Op, s.Method, s.Cookie = "login", "GET", w.genCookie(t)
	}
	return s
}

func genMixBody(t *rapid.T, c *Case, maxReqs int) {
	c.Seed = rapid.Uint64().Draw(t, "seed")
	w := genWorld(t, c)
	n := rapid.IntRange(2, maxReqs).Draw(t, "nreqs")
	if rapid.IntRange(0, 4).Draw(t, "same-sp-burst") == 0 {
		// several users holding sessions ask for the SAME service at once
		name := pick(t, "burst-service", sortedKeys(w.services))
		v := idpsrv.Variants[w.services[name]]
		for i := 0; i < n; i++ {
			c.Reqs = append(c.Reqs, Step{Op: "sso", Method: pick(t, "method", []string{"GET", "POST"}), Pw: -1, Issuer: v.Entity, ACS: pick(t, "acs", append([]int{-1}, v.ACS...)),
				Cookie: Cookie{Kind: "session", Idx: rapid.IntRange(0, w.nsess-1).Draw(t, "sess")}})
		}
		return
	}
	for i := 0; i < n; i++ {
		c.Reqs = append(c.Reqs, w.genReq(t))
	}
}

var itersSched = []int{1, 20, 200, 600, 1500, 1500, 3000}
var itersRace = []int{1, 20, 100, 300, 300}

func genSched(t *rapid.T) Case {
	switch k := rapid.IntRange(0, 19).Draw(t, "harness"); {
	case k >= 18:
		return genErrs(t, true)
	case k >= 16:
		return genOwners(t, itersSched)
	}
	c := Case{Kind: "sched"}
	genMixBody(t, &c, 4)
	c.Churn = genChurn(t)
	c.Choices = rapid.SliceOfN(rapid.IntRange(0, 3), 0, 28).Draw(t, "choices")
	return c
}

func genRace(t *rapid.T) Case {
	switch k := rapid.IntRange(0, 31).Draw(t, "kind"); {
	case k < 8:
		c := Case{Kind: "mix"}
		genMixBody(t, &c, 5)
		c.Churn = genChurn(t)
		return c
	case k == 8:
		return genErrs(t, false)
	case k < 11:
		return genOwners(t, itersRace)
	}
	c := Case{Kind: "store"}
	c.Pre = genPre(t, 0, 8)
	nc := rapid.IntRange(2, 4).Draw(t, "clients")
	for i := 0; i < nc; i++ {
		n := rapid.IntRange(1, 6).Draw(t, "nops")
		var ops []StoreOp
		for j := 0; j < n; j++ {
			o := StoreOp{Op: pick(t, "op", []string{"get", "put", "delete", "list", "put", "get", "put_bad", "get_bad"}), Key: rapid.IntRange(0, 2).Draw(t, "key")}
			switch o.Op {
			case "put":
				o.Val = rapid.IntRange(1, 9).Draw(t, "val")
			case "put_bad", "get_bad":
				o.Val = rapid.IntRange(0, 3).Draw(t, "bad-kind")
			}
			ops = append(ops, o)
		}
		c.Clients = append(c.Clients, ops)
	}
	return c
}

// ---------------------------------------------------------------- exhaustive: grant orders for pairs of request kinds

func pairTemplates() []Step {
	c0 := Cookie{Kind: "session", Idx: 0}
	return []Step{
		{Op: "sso", Method: "POST", User: "alice", Pw: 0, Issuer: 0, ACS: 0},
		{Op: "sso", Method: "GET", Pw: -1, Issuer: 0, ACS: 0, Cookie: c0},
		{Op: "launch", Name: "sc-x", Method: "GET", Pw: -1, Cookie: c0},
		{Op: "login", Method: "POST", User: "alice", Pw: 0},
		{Op: "put_service", Name: "svc-a", MD: 1, Pw: -1},
		{Op: "put_service", Name: "svc-b", MD: 2, Pw: -1},
		// requests for the entity that put_service svc-b is about to register
		{Op: "sso", Method: "GET", Pw: -1, Issuer: 1, ACS: 2, Cookie: c0},
		{Op: "launch", Name: "sc-y", Method: "GET", Pw: -1, Cookie: c0},
		{Op: "del_service", Name: "svc-a", Pw: -1},
		{Op: "get_service", Name: "svc-a", Pw: -1},
		{Op: "list_services", Pw: -1},
		{Op: "put_user", Name: "alice", Profile: 1, Pw: -1},
		{Op: "del_user", Name: "alice", Pw: -1},
		{Op: "put_shortcut", Name: "sc-x", Issuer: 0, Relay: 1, Pw: -1},
		{Op: "del_shortcut", Name: "sc-x", Pw: -1},
		{Op: "del_session", Pw: -1, Session: c0},
		{Op: "metadata", Pw: -1},
		// requests that fail: every error path next to every other handler
		{Op: "del_service", Name: "no-such-service", Pw: -1},
		{Op: "del_user", Name: "nobody", Pw: -1},
		{Op: "del_shortcut", Name: "no-such-shortcut", Pw: -1},
		{Op: "del_session", Pw: -1, Session: Cookie{Kind: "forged", Val: "no/such+session="}},
		{Op: "put_service", Name: "svc-a", MD: 1, Pw: -1, Bad: true},
		{Op: "put_user", Name: "alice", Profile: 1, Pw: -1, Bad: true},
		{Op: "put_shortcut", Name: "sc-x", Issuer: 0, Pw: -1, Bad: true},
		{Op: "login", Method: "POST", User: "alice", Pw: 1},
		{Op: "sso", Method: "POST", User: "alice", Pw: 1, Issuer: 0, ACS: 0},
		{Op: "sso", Method: "GET", Pw: -1, Issuer: 2, ACS: 0, Cookie: c0},
		{Op: "sso", Method: "GET", Pw: -1, Issuer: 0, ACS: 4, Cookie: c0},
		{Op: "launch", Name: "no-such-shortcut", Method: "GET", Pw: -1, Cookie: c0},
		{Op: "launch", Name: "sc-x", Method: "GET", Pw: -1, Cookie: Cookie{Kind: "forged", Val: "forged"}},
		{Op: "get_service", Name: "no-such-service", Pw: -1},
		// readers of every kind
		{Op: "get_user", Name: "alice", Pw: -1},
		{Op: "list_users", Pw: -1},
		{Op: "get_shortcut", Name: "sc-x", Pw: -1},
		{Op: "list_shortcuts", Pw: -1},
		{Op: "get_session", Pw: -1, Session: c0},
		{Op: "list_sessions", Pw: -1},
		{Op: "login", Method: "GET", Pw: -1, Cookie: c0},
	}
}

func enumPairs(tier string, emit func(Case)) {
	bits := 5
	if tier == "thorough" {
		bits = 8
	}
	init := []Step{
		{Op: "seed_user", Name: "alice", Pw: 0, Profile: 0},
		{Op: "put_service", Name: "svc-a", MD: 0, Pw: -1},
		{Op: "put_shortcut", Name: "sc-x", Issuer: 0, Pw: -1},
		{Op: "put_shortcut", Name: "sc-y", Issuer: 1, Pw: -1},
	}
	setup := []Step{{Op: "seed_session", Name: "alice", Delta: 60, Pw: -1}}
	tp := pairTemplates()
	for i := range tp {
		for j := i; j < len(tp); j++ {
			for m := 0; m < 1<<bits; m++ {
				ch := make([]int, bits)
				for b := 0; b < bits; b++ {
					ch[b] = (m >> b) & 1
				}
				emit(Case{Kind: "sched", Seed: 11, Init: init, Setup: setup, Reqs: []Step{tp[i], tp[j]}, Choices: ch})
			}
		}
	}
}

// enumFailingStoreOps: every unencodable value / undecodable target at every position of a short
// program, alone and next to a second client: the failing operation reports an error, the
// store stays usable and the rest is linearizable as if it had never happened.
func enumFailingStoreOps(_ string, emit func(Case)) {
	base := []StoreOp{{Op: "put", Key: 0, Val: 1}, {Op: "get", Key: 0}, {Op: "put", Key: 0, Val: 2}, {Op: "list", Key: 0}, {Op: "delete", Key: 0}}
	other := []StoreOp{{Op: "get", Key: 0}, {Op: "put", Key: 1, Val: 3}, {Op: "list", Key: 2}, {Op: "get", Key: 1}}
	for _, bad := range []string{"put_bad", "get_bad"} {
		kinds := 4
		if bad == "get_bad" {
			kinds = 3
		}
		for k := 0; k < kinds; k++ {
			for pos := 0; pos <= len(base); pos++ {
				prog := append(append(append([]StoreOp(nil), base[:pos]...), StoreOp{Op: bad, Key: pos % 2, Val: k}), base[pos:]...)
				emit(Case{Kind: "store", Clients: [][]StoreOp{prog}})
				emit(Case{Kind: "store", Clients: [][]StoreOp{prog, other}})
				emit(Case{Kind: "store", Clients: [][]StoreOp{other, prog, {{Op: bad, Key: 1, Val: k}, {Op: "put", Key: 1, Val: 4}, {Op: "get", Key: 1}}}})
			}
		}
	}
}

// enumSameServiceBursts: users holding sessions ask for the same registered service at the same
// time, for every metadata variant (free-running under the race detector in the race job).
func enumSameServiceBursts(_ string, emit func(Case)) {
	for v, mv := range idpsrv.Variants {
		if v > 5 {
			break
		}
		for _, n := range []int{2, 4} {
			for _, method := range []string{"GET", "POST"} {
				c := Case{Kind: "mix", Seed: 30 + uint64(v), Init: []Step{{Op: "seed_user", Name: "alice", Pw: 0, Profile: 0}, {Op: "seed_user", Name: "bob", Pw: 1, Profile: 3}, {Op: "put_service", Name: "svc-a", Pw: -1, MD: v}},
					Setup: []Step{{Op: "seed_session", Name: "alice", Pw: -1, Delta: 60}, {Op: "seed_session", Name: "bob", Pw: -1, Delta: 600}}}
				for i := 0; i < n; i++ {
					c.Reqs = append(c.Reqs, Step{Op: "sso", Method: method, Pw: -1, Issuer: mv.Entity, ACS: mv.ACS[i%len(mv.ACS)], Cookie: Cookie{Kind: "session", Idx: i % 2}})
				}
				if n == 4 {
					c.Reqs[3] = Step{Op: "launch", Name: "sc-x", Method: "GET", Pw: -1, Cookie: Cookie{Kind: "session", Idx: 1}}
					c.Init = append(c.Init, Step{Op: "put_shortcut", Name: "sc-x", Pw: -1, Issuer: mv.Entity})
				}
				emit(c)
			}
		}
	}
}

// ---------------------------------------------------------------- properties and tests

var propSched = &pbt.Prop[Case]{
	ID: "C20",
	Rule: "sched: a seeded store (1-3 users, 1-3 services over 4 metadata variants, 1-2 shortcuts), 1-2 sequential logins (one possibly expired), then 2-4 concurrent requests over " +
		"{sso creds/cookie, launch, login, put/del/get/list service, put/del/get/list user, put/del/get/list shortcut, del/get/list session, metadata} run under a parking Store wrapper; the case's choice list picks which parked request proceeds at every store operation. " +
		"Exhaustive: for every unordered pair of 38 request templates (every handler, its error paths and the readers), all choice strings of 5 (thorough 8) binary decisions. " +
		"race job: the same mixes (2-5 requests) free-running over the bare MemoryStore and MemoryStore programs of 2-4 clients x <= 6 operations on 3 keys / 3 prefixes, including Puts of unencodable values and Gets into undecodable targets that must fail and leave the store usable (porcupine, sequential map model; deadlock predicate), each run 3 times under the race detector. " +
		"Long-lived stores and servers: every store program is preceded by a generated prefix history of 0-64 puts and (mostly successful) deletes on the same store, and the store under every server (sched, mix, errs) has seen 0-64 objects come and go before the server starts. " +
		"owners: 2-5 goroutines each own three keys and run a generated list of 2-12 Put/Delete/Get/List-own-prefix operations 1-3000 times over on ONE store (after such a prefix history) while a further goroutine lists prefixes; every Get / own List must show the owner's last completed write, the quiescent state must be exactly the owners' last writes (per-key sequential consistency, implied by linearizability; no search). " +
		"errs: a sequential program on ONE server in which requests meant to fail and to change nothing (passwords of 73-1000 bytes that bcrypt refuses, malformed JSON / XML bodies, methods no route accepts, unknown users, wrong passwords, missing objects, unacceptable SSO) are sent 1-8 times (one after the other or at once) before and between ordinary requests (credential logins and SSO, password PUTs, registrations, launches, readers); every request completes, and every ordinary request gets the status class and SAMLResponse-or-not it gets on a fresh server that served the ordinary requests only. A request counts as never completing only by a state predicate (it and every goroutine running or started by the library are in wait states only another goroutine can end: mutex, channel send/receive, Cond, semaphore, WaitGroup), confirmed on 25 snapshots and reproduced at the same program entry on a second fresh server; a watchdog expiry alone is inconclusive. " +
		"Exhaustive: 16 failing-request templates x repetitions {1,3,4,5,8} x {sequential, burst} x 3 follow-up request lists; fixed owner programs x store age {0,8,15,16,17,32 successful deletes} x 2-4 owners x lister. " +
		"non-trivial: at least two requests touch the registry lock or the same store key and one of them writes; store programs with >= 2 clients and a writer; owner programs with >= 2 writers and >= 64 operations; errs programs with an ordinary request after a failing one. distinct: sha256 of the JSON case.",
	Gen:   genSched,
	Check: check,
	Reset: fix.Reset,
	Enums: []pbt.Enum[Case]{{Name: "grant-orders-for-request-pairs", Each: enumPairs}, {Name: "store-programs-with-failing-operations", Each: enumFailingStoreOps},
		{Name: "repeated-failing-requests-x-repetitions-x-following-requests", Each: enumRepeatedFailing}, {Name: "owner-partitioned-programs-x-store-age", Each: enumOwnerStress}},
	Assumptions: []string{
		"schedule control is at store-operation granularity: a granted request runs until its next store operation, its end, or a mutex it cannot get",
		"quiescence and deadlock are decided from runtime.Stack(all) goroutine headers (wait reasons sync.RWMutex.RLock, sync.RWMutex.Lock, sync.Mutex.Lock); a watchdog expiry is inconclusive (case skipped), never a verdict",
		"replies are judged with interleaving-independent clauses: exactly one well-formed reply, no stored hash disclosed, every SAMLResponse justified by a password or unexpired session and by a registration that existed at some point of the concurrent phase",
		"no request of the concurrent phase hashes a password (users are seeded with low-cost hashes); errs programs of the sched job do (sequentially, at full cost)",
		"errs: a request meant to fail that is answered below 400 on a state-changing method, or that sets a session cookie, ends the comparison with the fresh server for the rest of the program (the property is silent); the reference run is the same implementation without the failing requests (metamorphic, not a model)",
	},
}

var propRace = &pbt.Prop[Case]{
	ID:          "C20",
	Rule:        propSched.Rule,
	Gen:         genRace,
	Enums:       []pbt.Enum[Case]{{Name: "store-programs-with-failing-operations", Each: enumFailingStoreOps}, {Name: "same-service-bursts-all-metadata-variants", Each: enumSameServiceBursts}},
	Check:       checkNoting,
	Reset:       fix.Reset,
	Assumptions: propSched.Assumptions,
}

// checkNoting writes the case about to run to $VERIF_OUT/current.json first: a race
// report kills the process, and the parent needs to know which program was running.
func checkNoting(c Case) pbt.Result {
	if c.Kind == "sched" && os.Getenv("VERIF_REPLAY") == "" {
		// corpus schedules belong to the sched job.  A deadlocked schedule leaves goroutines
		// blocked for ever; their earlier reads of the library's global knobs would then be
		// reported as racing with the next case's reset - an artefact of not being able to
		// join them, so this process never continues after a schedule.
		return pbt.Result{Skip: true}
	}
	if out := os.Getenv("VERIF_OUT"); out != "" && os.Getenv("VERIF_REPLAY") == "" {
		if buf, err := json.Marshal(c); err == nil {
			_ = os.WriteFile(filepath.Join(out, "current.json"), buf, 0o644)
		}
	}
	return check(c)
}

// TestCheck is the controlled-schedule job.
func TestCheck(t *testing.T) { pbt.Run(t, propSched) }

// FuzzCheck drives the controlled scheduler from the native fuzzer.
func FuzzCheck(f *testing.F) { pbt.Fuzz(f, propSched) }

// TestRaceWorker runs the free-running programs in this process (race-built binary).
// It is meant to be started by TestRace only.
func TestRaceWorker(t *testing.T) {
	if os.Getenv("VERIF_RACE_WORKER") != "1" {
		t.Skip("started by TestRace only")
	}
	pbt.Run(t, propRace)
}

const raceExit = 66

// TestRace re-executes the test binary as TestRaceWorker and turns a death by race
// report (GORACE exitcode=66) or by a Go fatal error into a VIOLATION line with a replay
// file; everything else the worker prints is passed through.
func TestRace(t *testing.T) {
	out := os.Getenv("VERIF_OUT")
	replay := os.Getenv("VERIF_REPLAY")
	if out == "" {
		dir, err := os.MkdirTemp("", "c20race")
		if err != nil {
			t.Fatal(err)
		}
		defer os.RemoveAll(dir)
		out = dir
	}
	cmd := exec.Command(os.Args[0], "-test.run", "^TestRaceWorker$", "-test.count=1", "-test.timeout", "0")
	gorace := os.Getenv("GORACE")
	if !strings.Contains(gorace, "exitcode=") {
		gorace = strings.TrimSpace(gorace + " halt_on_error=1 exitcode=" + strconv.Itoa(raceExit))
	}
	cmd.Env = append(os.Environ(), "VERIF_RACE_WORKER=1", "VERIF_OUT="+out, "GORACE="+gorace)
	var buf bytes.Buffer
	cmd.Stdout = &buf
	cmd.Stderr = &buf
	err := cmd.Run()
	text := buf.String()
	race := strings.Contains(text, "WARNING: DATA RACE")
	fatal := strings.Contains(text, "fatal error: concurrent map")
	// pass the worker's own lines through, but not the raw race report / crash dump
	shown := text
	for _, mark := range []string{"==================\nWARNING: DATA RACE", "fatal error: concurrent map"} {
		if i := strings.Index(shown, mark); i >= 0 {
			shown = shown[:i]
		}
	}
	fmt.Print(shown)
	code := 0
	if err != nil {
		code = -1
		if ee, ok := err.(*exec.ExitError); ok {
			code = ee.ExitCode()
		}
	}
	if !race && !fatal {
		if code != 0 {
			t.Fail()
		}
		return
	}
	if _, serr := os.Stat(filepath.Join(out, "deadlock-seen")); serr == nil {
		// a deadlock verdict was already reported by the worker; goroutines it could not join
		// make every later race report of that process meaningless
		fmt.Println("race report after a reported deadlock ignored (leaked goroutines)")
		if !strings.Contains(text, "VIOLATION property=") {
			// the worker died before it could write the deadlock verdict itself: do it for it
			if cur, rerr := os.ReadFile(filepath.Join(out, "deadlock-case.json")); rerr == nil {
				h := sha256.Sum256(cur)
				dir := filepath.Join(pbt.Root(), "replays", "C20")
				_ = os.MkdirAll(dir, 0o755)
				path := filepath.Join(dir, fmt.Sprintf("%x.json", h[:8]))
				_ = os.WriteFile(path, cur, 0o644)
				msg, _ := os.ReadFile(filepath.Join(out, "deadlock-msg.txt"))
				first := strings.SplitN(string(msg), "\n", 2)[0]
				line := fmt.Sprintf("VIOLATION property=C20 replay=%s\nVIOLATION-DETAIL property=C20 phase=race %s\n", path, first)
				fmt.Print(line)
				if f, ferr := os.OpenFile(filepath.Join(out, "violations.log"), os.O_APPEND|os.O_CREATE|os.O_WRONLY, 0o644); ferr == nil {
					_, _ = f.WriteString(line)
					_ = f.Close()
				}
			}
		}
		t.Fail()
		return
	}
	// the worker died in the middle of a program
	path := replay
	if path == "" {
		cur, rerr := os.ReadFile(filepath.Join(out, "current.json"))
		if rerr != nil {
			fmt.Printf("race report without a current program: %v\n", rerr)
			t.Fail()
			return
		}
		h := sha256.Sum256(cur)
		dir := filepath.Join(pbt.Root(), "replays", "C20")
		_ = os.MkdirAll(dir, 0o755)
		path = filepath.Join(dir, fmt.Sprintf("%x.json", h[:8]))
		_ = os.WriteFile(path, cur, 0o644)
	}
	what := "data race reported by the race detector"
	if fatal && !race {
		what = "Go runtime fatal error: concurrent map access"
	}
	detail := raceExcerpt(text)
	line := fmt.Sprintf("VIOLATION property=C20 replay=%s\nVIOLATION-DETAIL property=C20 phase=race %s\n    %s\n", path, what, strings.ReplaceAll(detail, "\n", "\n    "))
	fmt.Print(line)
	if f, err := os.OpenFile(filepath.Join(out, "violations.log"), os.O_APPEND|os.O_CREATE|os.O_WRONLY, 0o644); err == nil {
		_, _ = f.WriteString(line)
		_ = f.Close()
	}
	// the worker may have died before its first flush: leave a (partial) shard report
	if _, serr := os.Stat(filepath.Join(out, "report.json")); serr != nil && replay == "" {
		shard, _ := strconv.Atoi(os.Getenv("VERIF_SHARD"))
		nsh, _ := strconv.Atoi(os.Getenv("VERIF_NSHARDS"))
		rep := map[string]any{"id": "C20", "tier": pbt.Tier(), "shard": shard, "nshards": nsh, "evaluations": 0, "complete": false,
			"rule": propSched.Rule, "assumptions": propSched.Assumptions, "classes": map[string]int{"race:worker-died-on-a-race-report": 1},
			"violations": []map[string]string{{"replay": path, "err": what, "phase": "race"}}}
		if buf, merr := json.MarshalIndent(rep, "", " "); merr == nil {
			_ = os.WriteFile(filepath.Join(out, "report.json"), buf, 0o644)
		}
	}
	t.Fail()
}

// raceExcerpt keeps the access lines of the first race report (functions and files).
func raceExcerpt(text string) string {
	i := strings.Index(text, "WARNING: DATA RACE")
	if i < 0 {
		i = strings.Index(text, "fatal error: concurrent map")
	}
	if i < 0 {
		return ""
	}
	lines := strings.Split(text[i:], "\n")
	var out []string
	for _, l := range lines {
		if strings.HasPrefix(l, "==================") && len(out) > 0 {
			break
		}
		if strings.Contains(l, "/harness/") || strings.Contains(l, "testing.") || strings.Contains(l, "/rapid") {
			continue
		}
		out = append(out, l)
		if len(out) >= 30 {
			break
		}
	}
	return strings.Join(out, "\n")
}
