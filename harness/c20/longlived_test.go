package c20

// Long-lived stores and servers.
//
//	prefix histories   Case.Pre (store programs) and Case.Churn (the store under a server):
//	                   what the one store has been through before the concurrent phase.
//	kind "owners"      several goroutines each own a disjoint key set and run a generated
//	                   Put/Delete/Get/List list on their own keys, many times over, on the SAME
//	                   store while a further goroutine lists prefixes.  No linearizability
//	                   search is needed: per key there is one writer, so every Get must return
//	                   the owner's last write and the final state is the owners' last writes.
//	kind "errs"        a sequential request program on ONE server whose failing requests are
//	                   repeated 1..8 times before and between the ordinary ones; every request
//	                   completes, and the ordinary ones are answered as on a fresh server that
//	                   never saw the failing ones.

import (
	"encoding/json"
	"fmt"
	"net/http/httptest"
	"os"
	"path/filepath"
	"runtime"
	"sort"
	"strings"
	"sync/atomic"
	"time"

	"github.com/crewjam/saml/samlidp"
	"pgregory.net/rapid"

	"verif/harness/internal/idpsrv"
	"verif/harness/internal/pbt"
)

func keyName(i int) string {
	if i >= 0 && i < len(storeKeys) {
		return storeKeys[i]
	}
	return fmt.Sprintf("/h/%d", i)
}

func bucket(n int) string {
	switch {
	case n == 0:
		return "0"
	case n < 16:
		return "1-15"
	case n < 32:
		return "16-31"
	}
	return "32+"
}

// preDeletes counts the deletes of a prefix history that remove an existing key.
func preDeletes(pre []StoreOp) int {
	live, n := map[int]bool{}, 0
	for _, o := range pre {
		switch o.Op {
		case "put":
			live[o.Key] = true
		case "delete":
			if live[o.Key] {
				n++
				delete(live, o.Key)
			}
		}
	}
	return n
}

func churnKey(i int) string {
	if i < 0 {
		i = -i
	}
	return []string{"/sessions/", "/users/", "/shortcuts/"}[i%3] + fmt.Sprintf("old-%d", i)
}

// churnDeletes: every toggle of a present object and every leftover is a successful delete.
func churnDeletes(churn []int) int {
	live, n := map[int]bool{}, 0
	for _, k := range churn {
		if live[k] {
			n++
			delete(live, k)
		} else {
			live[k] = true
		}
	}
	return n + len(live)
}

// applyChurn gives the store under the server its past: objects that came and went.
// Nothing of it is left when the server starts.
func applyChurn(env *idpsrv.Env, churn []int) {
	if len(churn) == 0 {
		return
	}
	env.Store.Counting(false)
	live := map[int]bool{}
	for _, k := range churn {
		if live[k] {
			_ = env.Store.Delete(churnKey(k))
			delete(live, k)
		} else {
			_ = env.Store.Put(churnKey(k), map[string]string{"name": "gone"})
			live[k] = true
		}
	}
	var rest []int
	for k := range live {
		rest = append(rest, k)
	}
	sort.Ints(rest)
	for _, k := range rest {
		_ = env.Store.Delete(churnKey(k))
	}
}

// ---------------------------------------------------------------- goroutine states of the library

// onlyOthersRelease: wait states that end only when ANOTHER goroutine acts (no timer, no I/O).
func onlyOthersRelease(reason string) bool {
	if mutexWait(reason) {
		return true
	}
	switch reason {
	case "chan send", "chan receive", "chan send (nil chan)", "chan receive (nil chan)", "select (no cases)",
		"sync.Cond.Wait", "semacquire", "sync.WaitGroup.Wait":
		return true
	}
	return false
}

// libraryStuck takes one snapshot of all goroutines.  It reports true when every goroutine
// that runs or was started by code of crewjam/saml (the unfinished requests among them) is in
// a wait state that only another goroutine can end: the harness itself only watches, so
// nobody is left who could.  texts: the dumps of the wanted goroutines.
func libraryStuck(want map[int64]bool) (bool, map[int64]string, map[int64]string) {
	for {
		n := runtime.Stack(stackBuf, true)
		if n == len(stackBuf) {
			stackBuf = make([]byte, 2*len(stackBuf))
			continue
		}
		reasons, texts := map[int64]string{}, map[int64]string{}
		stuck := true
		for _, blk := range strings.Split(string(stackBuf[:n]), "\n\n") {
			if !strings.HasPrefix(blk, "goroutine ") {
				continue
			}
			line := blk
			if i := strings.IndexByte(blk, '\n'); i >= 0 {
				line = blk[:i]
			}
			var id int64
			rest := line[len("goroutine "):]
			sp := strings.IndexByte(rest, ' ')
			if sp < 0 {
				continue
			}
			if _, err := fmt.Sscanf(rest[:sp], "%d", &id); err != nil {
				continue
			}
			lib := strings.Contains(blk, "github.com/crewjam/saml")
			if !lib && !want[id] {
				continue
			}
			r := strings.TrimPrefix(rest[sp+1:], "[")
			if i := strings.IndexAny(r, ",]"); i >= 0 {
				r = r[:i]
			}
			if !onlyOthersRelease(r) {
				stuck = false
			}
			if want[id] {
				reasons[id], texts[id] = r, blk
			}
		}
		for g := range want {
			if _, ok := reasons[g]; !ok {
				stuck = false
			}
		}
		return stuck, reasons, texts
	}
}

// await waits for the goroutines gids (finished[i] set at their end).  It returns
// ("", true) when all have finished, (text, true) when the library is stuck for good - a
// state predicate confirmed on 25 snapshots over >= 100 ms - and ("", false) when the 30 s
// watchdog expired without either (inconclusive; never a verdict).
func await(gids []int64, finished []atomic.Bool) (string, bool) {
	begin := time.Now()
	deadline := begin.Add(30 * time.Second)
	confirmed := 0
	for {
		want := map[int64]bool{}
		for i := range finished {
			if !finished[i].Load() {
				want[atomic.LoadInt64(&gids[i])] = true
			}
		}
		if len(want) == 0 {
			return "", true
		}
		if time.Now().After(deadline) {
			return "", false
		}
		if time.Since(begin) < 50*time.Millisecond {
			time.Sleep(50 * time.Microsecond)
			continue
		}
		if want[0] {
			time.Sleep(time.Millisecond)
			continue
		}
		stuck, reasons, texts := libraryStuck(want)
		if !stuck {
			confirmed = 0
			time.Sleep(time.Millisecond)
			continue
		}
		confirmed++
		time.Sleep(4 * time.Millisecond)
		if confirmed < 25 {
			continue
		}
		var ids []int64
		for g := range want {
			ids = append(ids, g)
		}
		sort.Slice(ids, func(i, j int) bool { return ids[i] < ids[j] })
		var b strings.Builder
		for _, g := range ids {
			fmt.Fprintf(&b, "  wait state [%s]\n%s\n", reasons[g], frames(texts[g]))
		}
		return b.String(), true
	}
}

// noteDeadlock: the blocked goroutines leak, so later race reports of this process are
// tainted; the verdict is kept where the parent of a race worker finds it.
func noteDeadlock(c Case, msg string) {
	out := os.Getenv("VERIF_OUT")
	if out == "" || os.Getenv("VERIF_RACE_WORKER") != "1" {
		return
	}
	_ = os.WriteFile(filepath.Join(out, "deadlock-seen"), []byte("1"), 0o644)
	if _, serr := os.Stat(filepath.Join(out, "deadlock-case.json")); serr != nil {
		if js, jerr := json.Marshal(c); jerr == nil {
			_ = os.WriteFile(filepath.Join(out, "deadlock-case.json"), js, 0o644)
			_ = os.WriteFile(filepath.Join(out, "deadlock-msg.txt"), []byte(msg), 0o644)
		}
	}
}

// ---------------------------------------------------------------- owners

func ownerKey(client, k int) string {
	return fmt.Sprintf("/o%d/%c", client, 'a'+byte(clampI(k, 3)))
}

func listerPrefix(i, nclients int) string {
	switch {
	case i <= 0:
		return "/"
	case i == 1:
		return "/h/"
	}
	return fmt.Sprintf("/o%d/", (i-2)%nclients)
}

func checkOwners(c Case) pbt.Result {
	if len(c.Clients) < 2 || len(c.Clients) > 6 || c.Iters < 1 || c.Iters > 5000 || len(c.Pre) > 64 {
		return pbt.Result{Skip: true}
	}
	total, writers, ownLists := 0, 0, false
	for _, cl := range c.Clients {
		if len(cl) < 1 || len(cl) > 16 {
			return pbt.Result{Skip: true}
		}
		w := false
		for _, o := range cl {
			switch o.Op {
			case "put", "delete":
				w = true
			case "list":
				ownLists = true
			case "get":
			default:
				return pbt.Result{Skip: true}
			}
		}
		if w {
			writers++
		}
		total += len(cl) * c.Iters
	}
	res := pbt.Result{Classes: []string{"owners", fmt.Sprintf("owners:%d-clients", len(c.Clients)),
		"owners:prefix-history:" + bucket(preDeletes(c.Pre)) + "-successful-deletes"}}
	switch {
	case total < 1000:
		res.Classes = append(res.Classes, "owners:operations:<1k")
	case total < 10000:
		res.Classes = append(res.Classes, "owners:operations:1k-10k")
	default:
		res.Classes = append(res.Classes, "owners:operations:10k+")
	}
	if len(c.Lister) > 0 {
		res.Classes = append(res.Classes, "owners:with-concurrent-lister")
	}
	if ownLists {
		res.Classes = append(res.Classes, "owners:owner-lists-own-prefix")
	}
	res.NonTrivial = writers >= 2 && total >= 64

	st := &samlidp.MemoryStore{}
	// prefix history on scratch keys /h/<n>
	hmodel := map[string]int{}
	universe := map[string]bool{}
	for _, o := range c.Pre {
		k := fmt.Sprintf("/h/%d", o.Key)
		universe[k] = true
		var err error
		switch o.Op {
		case "put":
			err = st.Put(k, o.Val)
			hmodel[k] = o.Val
		case "delete":
			err = st.Delete(k)
			delete(hmodel, k)
		}
		if err != nil {
			res.Err = fmt.Sprintf("prefix history: %s %s failed: %v", o.Op, k, err)
			return res
		}
	}
	for ci := range c.Clients {
		for k := 0; k < 3; k++ {
			universe[ownerKey(ci, k)] = true
		}
	}

	n := len(c.Clients)
	models := make([]map[string]int, n)
	faults := make([]string, n+1)
	var stop atomic.Bool
	var ownersLeft atomic.Int32
	ownersLeft.Store(int32(n))
	gids := make([]int64, n+1)
	finished := make([]atomic.Bool, n+1)
	start := make(chan struct{})
	for ci, cl := range c.Clients {
		ci, cl := ci, cl
		models[ci] = map[string]int{}
		go func() {
			defer finished[ci].Store(true)
			defer ownersLeft.Add(-1)
			atomic.StoreInt64(&gids[ci], goid())
			<-start
			model := models[ci]
			last := map[string]string{}
			fail := func(f string, a ...any) {
				faults[ci] = fmt.Sprintf("client %d (the only writer of /o%d/*): ", ci, ci) + fmt.Sprintf(f, a...)
				stop.Store(true)
			}
			for it := 0; it < c.Iters && !stop.Load(); it++ {
				for j, o := range cl {
					key := ownerKey(ci, o.Key)
					switch o.Op {
					case "put":
						v := (it*16+j)*10 + o.Val%10
						if err := st.Put(key, v); err != nil {
							fail("Put(%s) failed: %v", key, err)
							return
						}
						model[key], last[key] = v, "Put"
					case "delete":
						if err := st.Delete(key); err != nil {
							fail("Delete(%s) failed: %v", key, err)
							return
						}
						delete(model, key)
						last[key] = "Delete"
					case "get":
						var got int
						err := st.Get(key, &got)
						want, ok := model[key]
						switch {
						case err != nil && err != samlidp.ErrNotFound:
							fail("Get(%s) failed: %v", key, err)
							return
						case ok && err != nil:
							fail("its own completed %s of %s is lost: the next Get reports not-found", last[key], key)
							return
						case ok && got != want:
							fail("Get(%s) returned a value other than its own last completed Put", key)
							return
						case !ok && err == nil:
							fail("Get(%s) finds a value although its own last operation on the key was a completed Delete (or none)", key)
							return
						}
					case "list":
						ks, err := st.List(fmt.Sprintf("/o%d/", ci))
						if err != nil {
							fail("List of its own prefix failed: %v", err)
							return
						}
						ks = append([]string(nil), ks...)
						sort.Strings(ks)
						var want []string
						for k := range model {
							want = append(want, strings.TrimPrefix(k, fmt.Sprintf("/o%d/", ci)))
						}
						sort.Strings(want)
						if strings.Join(ks, ",") != strings.Join(want, ",") {
							fail("List of its own prefix returned [%s], its own completed operations leave [%s]", strings.Join(ks, ","), strings.Join(want, ","))
							return
						}
					}
				}
			}
		}()
	}
	// the lister: reads only; whatever it sees must be keys somebody may have written
	go func() {
		defer finished[n].Store(true)
		atomic.StoreInt64(&gids[n], goid())
		<-start
		if len(c.Lister) == 0 {
			return
		}
		for i := 0; ownersLeft.Load() > 0 && !stop.Load(); i++ {
			p := listerPrefix(c.Lister[i%len(c.Lister)], n)
			ks, err := st.List(p)
			if err != nil {
				faults[n] = fmt.Sprintf("List(%s) next to the owners failed: %v", p, err)
				stop.Store(true)
				return
			}
			for _, k := range ks {
				if !universe[p+k] {
					faults[n] = fmt.Sprintf("List(%s) next to the owners returned %q, a key nobody ever wrote", p, k)
					stop.Store(true)
					return
				}
			}
			runtime.Gosched()
		}
	}()
	close(start)
	txt, ok := await(gids, finished)
	if !ok {
		return pbt.Result{Skip: true}
	}
	if txt != "" {
		res.Err = "deadlock in an owner-partitioned store program: the unfinished clients are blocked and nobody can release them\n" + txt
		res.Classes = append(res.Classes, "owners:deadlock")
		noteDeadlock(c, res.Err)
		return res
	}
	for _, f := range faults {
		if f != "" {
			res.Err = "owner-partitioned store program (per-key sequential consistency, implied by linearizability): " + f
			return res
		}
	}
	// quiescent state: exactly the owners' last writes plus what the prefix history left
	want := map[string]int{}
	for k, v := range hmodel {
		want[k] = v
	}
	for _, m := range models {
		for k, v := range m {
			want[k] = v
		}
	}
	var keys []string
	for k := range universe {
		keys = append(keys, k)
	}
	sort.Strings(keys)
	for _, k := range keys {
		var got int
		err := st.Get(k, &got)
		w, present := want[k]
		switch {
		case err != nil && err != samlidp.ErrNotFound:
			res.Err = fmt.Sprintf("owner-partitioned store program: final Get(%s) failed: %v", k, err)
		case present && err != nil:
			res.Err = fmt.Sprintf("owner-partitioned store program: after all clients finished %s is absent although its only writer's last operation was a completed Put", k)
		case present && got != w:
			res.Err = fmt.Sprintf("owner-partitioned store program: after all clients finished %s holds a value other than its only writer's last Put", k)
		case !present && err == nil:
			res.Err = fmt.Sprintf("owner-partitioned store program: after all clients finished %s is present although its only writer's last operation was a completed Delete (or none)", k)
		}
		if res.Err != "" {
			return res
		}
	}
	all, err := st.List("/")
	if err != nil {
		res.Err = fmt.Sprintf("owner-partitioned store program: final List failed: %v", err)
		return res
	}
	all = append([]string(nil), all...)
	sort.Strings(all)
	var wantKeys []string
	for k := range want {
		wantKeys = append(wantKeys, strings.TrimPrefix(k, "/"))
	}
	sort.Strings(wantKeys)
	if strings.Join(all, ",") != strings.Join(wantKeys, ",") {
		res.Err = fmt.Sprintf("owner-partitioned store program: after all clients finished List(/) returns [%s]; the last completed operations leave [%s]", strings.Join(all, ","), strings.Join(wantKeys, ","))
	}
	return res
}

// ---------------------------------------------------------------- errs

var badMethods = [][2]string{
	{"POST", "/users/alice"}, {"PATCH", "/users/alice"}, {"PUT", "/users/"}, {"DELETE", "/users/"}, {"DELETE", "/metadata"}, {"PUT", "/metadata"},
	{"PUT", "/sessions/no-such-session"}, {"POST", "/sessions/"}, {"POST", "/shortcuts/sc-x"}, {"PATCH", "/services/svc-a"}, {"DELETE", "/services/"}, {"PUT", "/shortcuts/"},
}

var badJSON = []string{`{"name": "x", "email": [`, ``, `[]`, `{"password": 5}`, `{"groups": "not-a-list"}`, "\xff\xfe{}", `{"name":`, `"just a string"`, `nul`}
var badXML = []string{`{"not": "metadata"}`, ``, `<EntityDescriptor`, `<EntityDescriptor xmlns="urn:oasis:names:tc:SAML:2.0:metadata"><unclosed></EntityDescriptor>`, "\x00\x01"}
var badShortcut = []string{`<shortcut/>`, ``, `[]`, `{"service_provider": 7}`, `{"relay_state": {}}`, `{"service_provider":`}

// buildErr builds the request of one program entry.
func buildErr(env *idpsrv.Env, e ErrReq) *idpsrv.Built {
	mk := func(method, path, body, ctype string) *idpsrv.Built {
		r := httptest.NewRequest(method, idpsrv.BaseURL+path, strings.NewReader(body))
		if ctype != "" {
			r.Header.Set("Content-Type", ctype)
		}
		r.RemoteAddr = "192.0.2.7:4711"
		return &idpsrv.Built{Req: r}
	}
	name := e.Step.Name
	if name == "" {
		name = "alice"
	}
	switch e.Fail {
	case "long-password":
		n := e.Len
		if n < 73 {
			n = 73
		}
		if n > 4096 {
			n = 4096
		}
		pw := strings.Repeat("x", n)
		if e.Var == 1 {
			pw = strings.Repeat("é", (n+1)/2) // fewer than n characters, at least n bytes
		}
		p := idpsrv.ProfileOf(name, e.Step.Profile)
		body, _ := json.Marshal(map[string]any{"name": name, "email": p.Email, "password": pw})
		return mk("PUT", "/users/"+name, string(body), "application/json")
	case "bad-json":
		switch e.Step.Op {
		case "put_shortcut":
			return mk("PUT", "/shortcuts/"+name, badShortcut[clampI(e.Var, len(badShortcut))], "application/json")
		case "put_service":
			m := "PUT"
			if e.Step.Method == "POST" {
				m = "POST"
			}
			return mk(m, "/services/"+name, badXML[clampI(e.Var, len(badXML))], "application/xml")
		}
		return mk("PUT", "/users/"+name, badJSON[clampI(e.Var, len(badJSON))], "application/json")
	case "bad-method":
		mp := badMethods[clampI(e.Var, len(badMethods))]
		return mk(mp[0], mp[1], `{"name":"alice"}`, "application/json")
	}
	if !e.Step.IsRequest() {
		return nil
	}
	return env.Build(e.Step)
}

type errOutcome struct {
	entry, rep int
	status     int
	assertion  bool
}

type errRun struct {
	ordinary   []errOutcome // one per ordinary entry, in program order
	failing    int          // failing requests served
	taintedAt  int          // index into ordinary from which nothing is compared (-1: never)
	blockedAt  int          // entry that never completed (-1: none)
	blockedTxt string
	violation  string
	skip       bool
}

// runErrs serves the program on a fresh server, one entry after the other.
func runErrs(c Case, withFailing bool) errRun {
	out := errRun{taintedAt: -1, blockedAt: -1}
	env, _, perr := prepare(c, true)
	if perr != "" {
		out.violation = perr
		return out
	}
	for ei, e := range c.Prog {
		if e.Fail != "" && !withFailing {
			continue
		}
		n := 1
		if e.Fail != "" {
			n = clampI(e.Rep, 9)
			if n < 1 {
				n = 1
			}
		}
		var built []*idpsrv.Built
		for i := 0; i < n; i++ {
			b := buildErr(env, e)
			if b == nil {
				out.skip = true
				return out
			}
			built = append(built, b)
		}
		replies := make([]*idpsrv.Reply, n)
		serve := func(idx []int) (string, bool) {
			gids := make([]int64, len(idx))
			finished := make([]atomic.Bool, len(idx))
			for k, i := range idx {
				k, i := k, i
				go func() {
					atomic.StoreInt64(&gids[k], goid())
					replies[i] = env.Serve(built[i])
					finished[k].Store(true)
				}()
			}
			return await(gids, finished)
		}
		var groups [][]int
		if e.Burst && n > 1 {
			g := make([]int, n)
			for i := range g {
				g[i] = i
			}
			groups = [][]int{g}
		} else {
			for i := 0; i < n; i++ {
				groups = append(groups, []int{i})
			}
		}
		for _, g := range groups {
			txt, ok := serve(g)
			if !ok {
				out.skip = true
				return out
			}
			if txt != "" {
				out.blockedAt, out.blockedTxt = ei, txt
				if e.Fail != "" && !e.Burst {
					out.failing += g[0] // the repetitions before this one were answered
				}
				return out
			}
		}
		env.NoteSessions()
		js, _ := json.Marshal(e)
		for i, rep := range replies {
			bad := ""
			switch {
			case rep == nil:
				bad = "no reply recorded"
			case rep.Panic != "":
				bad = "handler panicked: " + rep.Panic
			case rep.NoReply:
				bad = "handler returned without writing a reply"
			case rep.Explicit > 1 || rep.LateHeader:
				bad = "more than one reply"
			case rep.Status < 200 || rep.Status > 599:
				bad = fmt.Sprintf("invalid status %d", rep.Status)
			case rep.Malformed != "":
				bad = "reply not well-formed: " + rep.Malformed
			}
			if bad != "" {
				out.violation = fmt.Sprintf("entry %d %s (repetition %d): %s", ei, js, i, bad)
				return out
			}
			if e.Fail == "" {
				out.ordinary = append(out.ordinary, errOutcome{entry: ei, rep: i, status: rep.Status, assertion: rep.Kind == "assertion"})
				continue
			}
			out.failing++
			// a "failing" request that was accepted after all may have changed the state: the
			// property is silent about what follows, so nothing after it is compared
			m := built[i].Req.Method
			accepted := rep.Status < 400 && m != "GET" && m != "HEAD" && e.Fail != "missing-object" && e.Fail != "wrong-password" && e.Fail != "unknown-user" && e.Fail != "bad-sso"
			if (accepted || rep.Cookies["session"] != "") && out.taintedAt < 0 {
				out.taintedAt = len(out.ordinary)
			}
		}
	}
	return out
}

func checkErrs(c Case) pbt.Result {
	if len(c.Prog) < 1 || len(c.Prog) > 24 || len(c.Churn) > 64 {
		return pbt.Result{Skip: true}
	}
	res := pbt.Result{Classes: []string{"errs"}}
	nFail, nOrd, maxRep, hashing := 0, 0, 0, false
	seenFail := false
	for _, e := range c.Prog {
		if e.Fail != "" {
			nFail++
			seenFail = true
			if e.Rep > maxRep {
				maxRep = e.Rep
			}
			res.Classes = append(res.Classes, "errs:failing:"+e.Fail)
			if e.Burst && e.Rep > 1 {
				res.Classes = append(res.Classes, "errs:failing-burst")
			}
			continue
		}
		nOrd++
		res.Classes = append(res.Classes, "errs:ordinary:"+e.Step.Op)
		if seenFail {
			res.Classes = append(res.Classes, "errs:ordinary-after-failing")
			if (e.Step.User != "" && e.Step.Method == "POST") || (e.Step.Op == "put_user" && e.Step.Pw >= 0 && !e.Step.Bad) {
				hashing = true
			}
		}
	}
	switch {
	case maxRep >= 5:
		res.Classes = append(res.Classes, "errs:repetitions:5-8")
	case maxRep >= 2:
		res.Classes = append(res.Classes, "errs:repetitions:2-4")
	default:
		res.Classes = append(res.Classes, "errs:repetitions:1")
	}
	if hashing {
		res.Classes = append(res.Classes, "errs:password-checked-or-hashed-after-failing")
	}
	res.NonTrivial = nFail >= 1 && nOrd >= 1 && seenFail

	a := runErrs(c, true)
	if a.skip {
		return pbt.Result{Skip: true}
	}
	if a.violation != "" {
		res.Err = a.violation
		return res
	}
	if a.blockedAt >= 0 {
		// a verdict needs a reproducible cause: the same entry must block again on a fresh server
		a2 := runErrs(c, true)
		if a2.skip || a2.blockedAt != a.blockedAt {
			return pbt.Result{Skip: true} // inconclusive
		}
		js, _ := json.Marshal(c.Prog[a.blockedAt])
		res.Err = fmt.Sprintf("a request never completes: entry %d %s of the program on one long-lived server is blocked, and so is every goroutine of the library - nobody is left to release it (state predicate on goroutine wait states, reproduced on a second fresh server; %d failing requests had been answered before)\n%s",
			a.blockedAt, js, a.failing, a.blockedTxt)
		res.Classes = append(res.Classes, "errs:deadlock")
		noteDeadlock(c, res.Err)
		return res
	}
	b := runErrs(c, false)
	if b.skip {
		return pbt.Result{Skip: true}
	}
	if b.violation != "" || b.blockedAt >= 0 {
		// the program without its failing requests is an ordinary sequential history (C19's
		// business, and the pair / mix harnesses'); nothing to compare against
		if b.violation != "" {
			res.Err = "without the failing requests: " + b.violation
		}
		return res
	}
	limit := len(a.ordinary)
	if a.taintedAt >= 0 {
		limit = a.taintedAt
		res.Classes = append(res.Classes, "errs:failing-request-was-accepted")
	}
	for i := 0; i < limit && i < len(b.ordinary); i++ {
		x, y := a.ordinary[i], b.ordinary[i]
		if x.status/100 != y.status/100 || x.assertion != y.assertion {
			js, _ := json.Marshal(c.Prog[x.entry])
			res.Err = fmt.Sprintf("requests that failed changed what the server does: entry %d %s is answered with status %d (SAMLResponse: %v) after the program's failing requests, but with status %d (SAMLResponse: %v) on a fresh server that served the same ordinary requests without them",
				x.entry, js, x.status, x.assertion, y.status, y.assertion)
			return res
		}
		if x.assertion {
			res.Classes = append(res.Classes, "errs:assertion-issued")
		}
	}
	return res
}

// ---------------------------------------------------------------- generators

// genPre draws the past of a long-lived store: 0..64 operations, mostly Put / Delete pairs
// that succeed (a key comes and goes), over keys lo..hi-1.
func genPre(t *rapid.T, lo, hi int) []StoreOp {
	n := 0
	switch rapid.IntRange(0, 5).Draw(t, "history-class") {
	case 0:
	case 1:
		n = rapid.IntRange(1, 12).Draw(t, "history")
	case 2:
		n = rapid.IntRange(28, 36).Draw(t, "history") // about 14..18 pairs
	case 3:
		n = 64
	default:
		n = rapid.IntRange(13, 64).Draw(t, "history")
	}
	var pre []StoreOp
	live := map[int]bool{}
	for len(pre) < n {
		k := rapid.IntRange(lo, hi-1).Draw(t, "hkey")
		switch {
		case live[k] && rapid.IntRange(0, 9).Draw(t, "hop") < 8:
			pre = append(pre, StoreOp{Op: "delete", Key: k})
			delete(live, k)
		case !live[k] && rapid.IntRange(0, 19).Draw(t, "hop") == 0:
			pre = append(pre, StoreOp{Op: "delete", Key: k}) // of an absent key
		default:
			pre = append(pre, StoreOp{Op: "put", Key: k, Val: rapid.IntRange(1, 9).Draw(t, "hval")})
			live[k] = true
		}
	}
	return pre
}

func genChurn(t *rapid.T) []int {
	switch rapid.IntRange(0, 3).Draw(t, "churn-class") {
	case 0:
		return nil
	case 1:
		return rapid.SliceOfN(rapid.IntRange(0, 5), 28, 34).Draw(t, "churn")
	}
	return rapid.SliceOfN(rapid.IntRange(0, 11), 1, 64).Draw(t, "churn")
}

func genOwners(t *rapid.T, iters []int) Case {
	c := Case{Kind: "owners"}
	c.Pre = genPre(t, 0, 24)
	nc := rapid.IntRange(2, 5).Draw(t, "owners")
	for i := 0; i < nc; i++ {
		n := rapid.IntRange(2, 12).Draw(t, "nops")
		var ops []StoreOp
		for j := 0; j < n; j++ {
			o := StoreOp{Op: pick(t, "op", []string{"put", "get", "delete", "put", "get", "delete", "get", "list"}), Key: rapid.IntRange(0, 2).Draw(t, "key")}
			if o.Op == "put" {
				o.Val = rapid.IntRange(1, 9).Draw(t, "val")
			}
			ops = append(ops, o)
		}
		c.Clients = append(c.Clients, ops)
	}
	c.Iters = pick(t, "iters", iters)
	if rapid.IntRange(0, 3).Draw(t, "lister") > 0 {
		c.Lister = rapid.SliceOfN(rapid.IntRange(0, 1+nc), 1, 3).Draw(t, "lister-prefixes")
	}
	return c
}

var errsFailing = []string{"long-password", "long-password", "bad-json", "bad-json", "bad-method", "unknown-user", "wrong-password", "missing-object", "bad-sso"}

func (w *world) genErrFailing(t *rapid.T) ErrReq {
	e := ErrReq{Fail: pick(t, "failing-class", errsFailing), Step: Step{Pw: -1}}
	e.Rep = rapid.IntRange(1, 8).Draw(t, "rep")
	e.Burst = rapid.IntRange(0, 3).Draw(t, "burst") == 0
	user := pick(t, "user", sortedKeys(w.users))
	svc := sortedKeys(w.services)[0]
	switch e.Fail {
	case "long-password":
		e.Step.Op = "put_user"
		e.Step.Name = pick(t, "user-name", []string{"alice", "bob", "carol", "newcomer"})
		e.Len = pick(t, "pw-bytes", []int{73, 73, 74, 80, 100, 255, 1000})
		e.Var = rapid.IntRange(0, 1).Draw(t, "pw-chars")
	case "bad-json":
		e.Step.Op = pick(t, "target", []string{"put_user", "put_user", "put_shortcut", "put_service"})
		switch e.Step.Op {
		case "put_user":
			e.Step.Name = pick(t, "user-name", []string{"alice", "bob", "newcomer"})
			e.Var = rapid.IntRange(0, len(badJSON)-1).Draw(t, "body")
		case "put_shortcut":
			e.Step.Name = pick(t, "shortcut", idpsrv.ShortcutNames[:2])
			e.Var = rapid.IntRange(0, len(badShortcut)-1).Draw(t, "body")
		default:
			e.Step.Name = pick(t, "service", idpsrv.ServiceNames[:3])
			e.Step.Method = pick(t, "method", []string{"PUT", "POST"})
			e.Var = rapid.IntRange(0, len(badXML)-1).Draw(t, "body")
		}
	case "bad-method":
		e.Var = rapid.IntRange(0, len(badMethods)-1).Draw(t, "method-path")
	case "unknown-user":
		switch pick(t, "how", []string{"login", "sso", "get", "del"}) {
		case "login":
			e.Step = Step{Op: "login", Method: "POST", User: pick(t, "nobody", []string{"nobody", "Alice", "alice "}), Pw: rapid.IntRange(0, 2).Draw(t, "pw")}
		case "sso":
			e.Step = Step{Op: "sso", Method: "POST", User: "nobody", Pw: 0, Issuer: idpsrv.Variants[w.services[svc]].Entity, ACS: idpsrv.Variants[w.services[svc]].ACS[0]}
		case "get":
			e.Step = Step{Op: "get_user", Name: "nobody", Pw: -1}
		default:
			e.Step = Step{Op: "del_user", Name: "nobody", Pw: -1}
			e.Fail = "missing-object"
		}
	case "wrong-password":
		e.Step = Step{Op: pick(t, "where", []string{"login", "sso"}), Method: "POST", User: user, Pw: (w.users[user] + 1 + rapid.IntRange(0, 1).Draw(t, "other")) % 3}
		if w.users[user] < 0 {
			e.Step.Pw = 0
		}
		if e.Step.Op == "sso" {
			e.Step.Issuer, e.Step.ACS = idpsrv.Variants[w.services[svc]].Entity, idpsrv.Variants[w.services[svc]].ACS[0]
		}
	case "missing-object":
		switch pick(t, "what", []string{"service", "user", "shortcut", "session", "get-service", "get-shortcut", "get-session", "launch"}) {
		case "service":
			e.Step = Step{Op: "del_service", Name: "no-such-service", Pw: -1}
		case "user":
			e.Step = Step{Op: "del_user", Name: "nobody", Pw: -1}
		case "shortcut":
			e.Step = Step{Op: "del_shortcut", Name: "no-such-shortcut", Pw: -1}
		case "session":
			e.Step = Step{Op: "del_session", Pw: -1, Session: Cookie{Kind: "forged", Val: "no/such+session="}}
		case "get-service":
			e.Step = Step{Op: "get_service", Name: "no-such-service", Pw: -1}
		case "get-shortcut":
			e.Step = Step{Op: "get_shortcut", Name: "no-such-shortcut", Pw: -1}
		case "get-session":
			e.Step = Step{Op: "get_session", Pw: -1, Session: Cookie{Kind: "forged", Val: "nope"}}
		default:
			e.Step = Step{Op: "launch", Name: "no-such-shortcut", Method: "GET", Pw: -1, Cookie: w.genCookie(t)}
		}
	case "bad-sso":
		switch pick(t, "what", []string{"unknown-issuer", "foreign-acs", "forged-cookie-launch"}) {
		case "unknown-issuer":
			e.Step = Step{Op: "sso", Method: "GET", Pw: -1, Issuer: 2, ACS: 0, Cookie: w.genCookie(t)}
		case "foreign-acs":
			e.Step = Step{Op: "sso", Method: "GET", Pw: -1, Issuer: idpsrv.Variants[w.services[svc]].Entity, ACS: 4, Cookie: w.genCookie(t)}
		default:
			e.Step = Step{Op: "launch", Name: sortedKeys(w.shortcuts)[0], Method: "GET", Pw: -1, Cookie: Cookie{Kind: "forged", Val: "forged"}}
		}
	}
	return e
}

// genErrOrdinary draws an ordinary request whose answer does not depend on anything but the
// requests served before it (no two registrations with different metadata for one entity).
func (w *world) genErrOrdinary(t *rapid.T, fullCost bool) ErrReq {
	s := Step{Pw: -1}
	svc := sortedKeys(w.services)[0]
	var creds []string
	for _, n := range sortedKeys(w.users) {
		if w.users[n] >= 0 {
			creds = append(creds, n)
		}
	}
	switch k := rapid.IntRange(0, 19).Draw(t, "ordinary"); {
	case k < 4:
		u := pick(t, "user", creds)
		s = Step{Op: "login", Method: "POST", User: u, Pw: w.users[u]}
	case k < 8:
		u := pick(t, "user", creds)
		name := pick(t, "service", sortedKeys(w.services))
		v := idpsrv.Variants[w.services[name]]
		s = Step{Op: "sso", Method: "POST", User: u, Pw: w.users[u], Issuer: v.Entity, ACS: pick(t, "acs", v.ACS)}
	case k < 10:
		v := idpsrv.Variants[w.services[svc]]
		s = Step{Op: "sso", Method: pick(t, "method", []string{"GET", "POST"}), Pw: -1, Issuer: v.Entity, ACS: v.ACS[0], Cookie: w.genCookie(t)}
	case k < 11 && fullCost:
		// a password is hashed at full cost (not under the race detector: a second per hash)
		s = Step{Op: "put_user", Name: pick(t, "user-name", []string{"bob", "carol", "newcomer"}), Pw: rapid.IntRange(0, 2).Draw(t, "pw"), Profile: rapid.IntRange(0, idpsrv.NProfiles-1).Draw(t, "profile")}
	case k < 12:
		s = Step{Op: "put_user", Name: pick(t, "user-name", idpsrv.UserNames[:3]), Pw: -1, Profile: rapid.IntRange(0, idpsrv.NProfiles-1).Draw(t, "profile")}
	case k < 13:
		name := pick(t, "service", idpsrv.ServiceNames[:3])
		md, ok := w.services[name]
		if !ok {
			md = pick(t, "md", w.perEntity)
		}
		s = Step{Op: "put_service", Name: name, MD: md, Pw: -1, Method: pick(t, "method", []string{"PUT", "POST"})}
	case k < 14:
		s = Step{Op: "launch", Name: sortedKeys(w.shortcuts)[0], Method: "GET", Pw: -1, Cookie: w.genCookie(t)}
	case k < 15:
		s = Step{Op: "put_shortcut", Name: pick(t, "shortcut", idpsrv.ShortcutNames[:2]), Pw: -1, Issuer: idpsrv.Variants[w.services[svc]].Entity, Relay: rapid.IntRange(0, 2).Draw(t, "relay")}
	default:
		s = w.genReader(t)
	}
	return ErrReq{Step: s}
}

func genErrs(t *rapid.T, fullCost bool) Case {
	c := Case{Kind: "errs"}
	c.Seed = rapid.Uint64().Draw(t, "seed")
	w := genWorld(t, &c)
	c.Churn = genChurn(t)
	// failing requests before and between the ordinary ones
	n := rapid.IntRange(1, 5).Draw(t, "segments")
	for i := 0; i < n; i++ {
		nf := rapid.IntRange(1, 3).Draw(t, "nfailing")
		if i > 0 && rapid.IntRange(0, 3).Draw(t, "no-failing") == 0 {
			nf = 0
		}
		for j := 0; j < nf; j++ {
			c.Prog = append(c.Prog, w.genErrFailing(t))
		}
		no := rapid.IntRange(1, 3).Draw(t, "nordinary")
		for j := 0; j < no; j++ {
			c.Prog = append(c.Prog, w.genErrOrdinary(t, fullCost))
		}
	}
	return c
}

// ---------------------------------------------------------------- enumerations

// enumRepeatedFailing: every class of failing request x how often it is repeated x how (one
// after the other / at once) x the ordinary request that follows on the same server.
func enumRepeatedFailing(_ string, emit func(Case)) {
	init := []Step{
		{Op: "seed_user", Name: "alice", Pw: 0, Profile: 0},
		{Op: "seed_user", Name: "bob", Pw: 1, Profile: 1},
		{Op: "put_service", Name: "svc-a", MD: 0, Pw: -1},
		{Op: "put_shortcut", Name: "sc-x", Issuer: 0, Pw: -1},
	}
	setup := []Step{{Op: "seed_session", Name: "alice", Delta: 60, Pw: -1}}
	failing := []ErrReq{
		{Fail: "long-password", Step: Step{Op: "put_user", Name: "alice", Pw: -1}, Len: 73},
		{Fail: "long-password", Step: Step{Op: "put_user", Name: "newcomer", Pw: -1}, Len: 200, Var: 1},
		{Fail: "bad-json", Step: Step{Op: "put_user", Name: "alice", Pw: -1}, Var: 0},
		{Fail: "bad-json", Step: Step{Op: "put_user", Name: "bob", Pw: -1}, Var: 3},
		{Fail: "bad-json", Step: Step{Op: "put_shortcut", Name: "sc-x", Pw: -1}, Var: 3},
		{Fail: "bad-json", Step: Step{Op: "put_service", Name: "svc-a", Pw: -1}, Var: 2},
		{Fail: "bad-method", Step: Step{Pw: -1}, Var: 0},
		{Fail: "bad-method", Step: Step{Pw: -1}, Var: 9},
		{Fail: "unknown-user", Step: Step{Op: "login", Method: "POST", User: "nobody", Pw: 0}},
		{Fail: "unknown-user", Step: Step{Op: "sso", Method: "POST", User: "nobody", Pw: 0, Issuer: 0, ACS: 0}},
		{Fail: "wrong-password", Step: Step{Op: "login", Method: "POST", User: "alice", Pw: 1}},
		{Fail: "wrong-password", Step: Step{Op: "sso", Method: "POST", User: "alice", Pw: 2, Issuer: 0, ACS: 0}},
		{Fail: "missing-object", Step: Step{Op: "del_service", Name: "no-such-service", Pw: -1}},
		{Fail: "missing-object", Step: Step{Op: "launch", Name: "no-such-shortcut", Method: "GET", Pw: -1, Cookie: Cookie{Kind: "session", Idx: 0}}},
		{Fail: "bad-sso", Step: Step{Op: "sso", Method: "GET", Pw: -1, Issuer: 2, ACS: 0, Cookie: Cookie{Kind: "session", Idx: 0}}},
		{Fail: "bad-sso", Step: Step{Op: "sso", Method: "GET", Pw: -1, Issuer: 0, ACS: 4, Cookie: Cookie{Kind: "session", Idx: 0}}},
	}
	follow := [][]Step{
		{{Op: "login", Method: "POST", User: "alice", Pw: 0}, {Op: "list_users", Pw: -1}},
		{{Op: "sso", Method: "POST", User: "bob", Pw: 1, Issuer: 0, ACS: 0}, {Op: "put_service", Name: "svc-a", MD: 0, Pw: -1}, {Op: "sso", Method: "GET", Pw: -1, Issuer: 0, ACS: 0, Cookie: Cookie{Kind: "session", Idx: 0}}},
		{{Op: "put_user", Name: "alice", Pw: -1, Profile: 1}, {Op: "launch", Name: "sc-x", Method: "GET", Pw: -1, Cookie: Cookie{Kind: "session", Idx: 0}}, {Op: "get_user", Name: "alice", Pw: -1}},
	}
	for fi, f := range failing {
		for _, rep := range []int{1, 3, 4, 5, 8} {
			for _, burst := range []bool{false, true} {
				if burst && rep == 1 {
					continue
				}
				for oi, fo := range follow {
					e := f
					e.Rep, e.Burst = rep, burst
					c := Case{Kind: "errs", Seed: uint64(40 + fi), Init: init, Setup: setup}
					if (fi+oi)%2 == 1 {
						for i := 0; i < 18; i++ {
							c.Churn = append(c.Churn, i%3, i%3)
						}
					}
					c.Prog = append(c.Prog, ErrReq{Step: fo[0]}, e)
					for _, s := range fo {
						c.Prog = append(c.Prog, ErrReq{Step: s})
					}
					emit(c)
				}
			}
		}
	}
	// a password set at full cost after every kind of refused password
	for _, n := range []int{73, 1000} {
		for _, rep := range []int{4, 8} {
			emit(Case{Kind: "errs", Seed: 77, Init: init, Setup: setup, Prog: []ErrReq{
				{Fail: "long-password", Step: Step{Op: "put_user", Name: "bob", Pw: -1}, Len: n, Rep: rep},
				{Step: Step{Op: "put_user", Name: "bob", Pw: 2, Profile: 1}},
				{Step: Step{Op: "login", Method: "POST", User: "bob", Pw: 2}},
			}})
		}
	}
}

// enumOwnerStress: fixed owner programs on stores of every age.
func enumOwnerStress(tier string, emit func(Case)) {
	iters := 3000
	if tier == "thorough" {
		iters = 5000
	}
	progs := [][]StoreOp{
		{{Op: "put", Key: 0, Val: 1}, {Op: "get", Key: 0}, {Op: "delete", Key: 0}, {Op: "get", Key: 0}},
		{{Op: "put", Key: 0, Val: 2}, {Op: "put", Key: 1, Val: 3}, {Op: "get", Key: 0}, {Op: "list", Key: 0}, {Op: "delete", Key: 1}, {Op: "get", Key: 1}, {Op: "get", Key: 0}},
		{{Op: "delete", Key: 2}, {Op: "put", Key: 2, Val: 4}, {Op: "get", Key: 2}, {Op: "put", Key: 0, Val: 5}, {Op: "delete", Key: 0}, {Op: "list", Key: 0}},
		{{Op: "put", Key: 1, Val: 6}, {Op: "get", Key: 1}, {Op: "put", Key: 1, Val: 7}, {Op: "get", Key: 1}, {Op: "delete", Key: 1}},
	}
	for _, pairs := range []int{0, 8, 15, 16, 17, 32} {
		var pre []StoreOp
		for i := 0; i < 12; i++ {
			pre = append(pre, StoreOp{Op: "put", Key: 100 + i, Val: 1}) // objects that stay
		}
		for i := 0; i < pairs; i++ {
			pre = append(pre, StoreOp{Op: "put", Key: i % 5, Val: 2}, StoreOp{Op: "delete", Key: i % 5})
		}
		if len(pre) > 64 {
			pre = pre[len(pre)-64:]
		}
		for nc := 2; nc <= 4; nc++ {
			for _, lister := range [][]int{nil, {0, 1, 2}} {
				emit(Case{Kind: "owners", Pre: pre, Clients: progs[:nc], Iters: iters, Lister: lister})
			}
		}
	}
}
