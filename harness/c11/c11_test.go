// Package c11: XML decryption is total and rejects malformed or mismatched ciphertext.
//
// Every case builds a ciphertext tree with the independent reference (internal/refenc,
// the harness holds all keys), damages it in a structure-aware way and hands it to
//
//	decrypt      xmlenc.Decrypt(key, EncryptedData)      with a key of any Go type
//	decrypt-key  xmlenc.Decrypt(key, EncryptedKey)
//	sp           ServiceProvider.ParseXMLResponse of an unsigned Response whose
//	             saml:EncryptedAssertion is the tree (pre-authentication reachability)
//
// Oracle (three-valued): never a panic; must-reject classes named by the property
// (CBC value empty / short / not block-aligned, final pad octet 0 or larger than the
// decrypted data, any modified GCM value, embedded certificate not matching the
// supplied RSA key, anything through the SP entry); whenever plaintext IS returned for
// a value the harness can decrypt itself it must be the reference plaintext.  Whether a
// well-formed value is accepted is C10's business and not judged here.
package c11

import (
	"bytes"
	"crypto/sha256"
	"encoding/base64"
	"encoding/binary"
	"fmt"
	"math/big"
	"net/url"
	"os"
	"path/filepath"
	"runtime/debug"
	"sort"
	"strconv"
	"strings"
	"sync"
	"testing"

	"github.com/beevik/etree"
	"github.com/crewjam/saml"
	"github.com/crewjam/saml/xmlenc"
	"pgregory.net/rapid"

	"verif/harness/internal/fix"
	"verif/harness/internal/pbt"
	"verif/harness/internal/refenc"
)

// Mut is one structural mutation of the ciphertext tree.
type Mut struct {
	Op     string `json:"op"`     // remove | dup | dupalt | nest | attr | rmattr | text | b64 | comment | cdata | child | keysize | rename | space | keychain | moveout | movein | retrieval | setid | addkey | reflist
	Target string `json:"target"` // data | data.em | data.ki | data.cd | data.cv | key | key.em | key.dm | key.ki | key.x509 | key.cd | key.cv
	Arg    string `json:"arg,omitempty"`
	N      int    `json:"n,omitempty"`
}

// EMChild is one optional / unexpected piece of content put into an xenc:EncryptionMethod.
type EMChild struct {
	Tag   string `json:"tag"`            // keysize | foreign-keysize | oaepparams | digest | mgf | unknown | text | comment
	Val   string `json:"val,omitempty"`  // text of the child (keysize: the declared size in bits, as written)
	Form  string `json:"form,omitempty"` // how Val is carried: "" text | cdata | split (text, comment, text) | nested (inside a child element) | attr (in an attribute, no text)
	First bool   `json:"first,omitempty"` // placed before what EncryptionMethod already holds (else appended)
}

// BMut is one byte-level mutation of an XML document (kind xml).
type BMut struct {
	Op  string `json:"op"` // flip | del | ins | dup | set
	Pos int    `json:"pos"`
	Len int    `json:"len,omitempty"`
	Val []byte `json:"val,omitempty"`
}

// Case is one attacked ciphertext.
type Case struct {
	Kind  string `json:"kind"`  // control | len | pad | gcm | cert | plain | retr | refs | keysize | emchild | mut | xml
	Entry string `json:"entry"` // decrypt | decrypt-key | sp

	Block     string `json:"block,omitempty"`     // aes128-cbc | aes192-cbc | aes256-cbc | tripledes-cbc | aes128-gcm
	Transport string `json:"transport,omitempty"` // direct | oaep-mgf1p | oaep11 | pkcs1
	Digest    string `json:"digest,omitempty"`    // sha1 | sha256 | sha512 | ripemd160 | absent
	Sibling   bool   `json:"sibling,omitempty"`   // EncryptedKey next to EncryptedData (sp entry)
	SPKey     string `json:"sp_key,omitempty"`    // sp entry: the SP's own key fixture (sp | spec)
	// how the presented document spells the two namespaces: "" (xenc: / ds:) | other (e: / dsig:) | default (default namespace, no prefix)
	XencPrefix string `json:"xenc_prefix,omitempty"`
	DsPrefix   string `json:"ds_prefix,omitempty"`
	Reparse    bool   `json:"reparse,omitempty"` // hand the serialised-and-parsed tree (else the in-memory one)

	PlainKind string `json:"plain_kind,omitempty"` // assertion | nosubject | comment | pi | empty | space | text | open | bytes
	Plain     []byte `json:"plain,omitempty"`
	Key       []byte `json:"key,omitempty"`    // content key of the base ciphertext (W3C size)
	IV        []byte `json:"iv,omitempty"`     // IV / nonce of the base ciphertext
	Filler    []byte `json:"filler,omitempty"` // arbitrary padding octets
	Seed      []byte `json:"seed,omitempty"`   // OAEP seed / PKCS#1 filler / derived octets

	WrappedKey    []byte `json:"wrapped_key,omitempty"` // octets wrapped in the EncryptedKey instead of Key (wrong sizes)
	HasWrappedKey bool   `json:"has_wrapped_key,omitempty"`

	KeyKind  string `json:"key_kind,omitempty"`  // content | bytes | rsa-ptr | rsa-other | rsa-val | ecdsa | string | int | nil
	KeyBytes []byte `json:"key_bytes,omitempty"` // bytes / string / int

	// kind len: the octets of the CipherValue (of EncryptedData, or of EncryptedKey when OnKey)
	CipherValue []byte `json:"cipher_value,omitempty"`
	OnKey       bool   `json:"on_key,omitempty"`
	// kind pad: NBlocks blocks are encrypted WITHOUT padding, the final octet being Last
	NBlocks int `json:"nblocks,omitempty"`
	Last    int `json:"last,omitempty"`
	// kind gcm: modification of a valid GCM value
	GCMOp  string `json:"gcm_op,omitempty"` // flip | truncate | extend | dropnonce | zerotag
	GCMPos int    `json:"gcm_pos,omitempty"`
	// kind cert: what sits in EncryptedKey/KeyInfo/X509Data/X509Certificate
	Cert string `json:"cert,omitempty"` // match | match-wrapped | sp2 | attacker | rsa1024 | ec | garbage | empty | notb64 | truncated
	// CertSib: another X509Data child next to the certificate ("" | issuerserial-before | issuerserial-after | ski-before | ski-after | subjectname-before | secondcert-match-after)
	CertSib string `json:"cert_sib,omitempty"`
	// kind retr: EncryptedData/KeyInfo/RetrievalMethod/@URI (HasURI) x the Id attribute of the EncryptedKey (HasKeyID)
	// x an optional second EncryptedKey for another recipient placed before the real one
	URI       string `json:"uri,omitempty"`
	HasURI    bool   `json:"has_uri,omitempty"`
	KeyID     string `json:"key_id,omitempty"`
	HasKeyID  bool   `json:"has_key_id,omitempty"`
	SecondKey string `json:"second_key,omitempty"` // "" | before | after
	// kind keysize: the data cipher value is a VALID ciphertext of the plaintext under ActualAlg with a key of
	// that algorithm's size, while the EncryptionMethod declares Block: the key handed over (direct: KeyBytes;
	// RSA transports: WrappedKey) has a size that is right for another variant but wrong for the declared one.
	ActualAlg string `json:"actual_alg,omitempty"` // aes128-cbc | aes192-cbc | aes256-cbc | tripledes-cbc | aes128-gcm | aes192-gcm | aes256-gcm
	// kind refs (and any kind): xenc:ReferenceList/xenc:DataReference inside the real / the second EncryptedKey:
	// "" none | nouri (no URI attribute) | empty (URI="") | hash (URI="#") | match (URI="#<Id of EncryptedData>") | other | nohash | two (nouri + match)
	RefList       string `json:"ref_list,omitempty"`
	SecondRefList string `json:"second_ref_list,omitempty"`
	DataIDMode    string `json:"data_id_mode,omitempty"` // Id attribute of EncryptedData: "" (present) | absent | empty
	// any kind (always for kind emchild): optional / unexpected content of EncryptedData/EncryptionMethod (DataEM)
	// and of EncryptedKey/EncryptionMethod (KeyEM): xenc:KeySize with any text, xenc:OAEPparams, further
	// DigestMethod / MGF, unknown and foreign children, text, comments; repeated children.
	DataEM []EMChild `json:"data_em,omitempty"`
	KeyEM  []EMChild `json:"key_em,omitempty"`
	// sp entry: configuration of the ServiceProvider the clause does not mention
	SPAllowIDPInitiated bool `json:"sp_allow_idp_initiated,omitempty"`
	// kind mut
	Muts []Mut `json:"muts,omitempty"`
	// kind xml
	File  string `json:"file,omitempty"` // corpus/<name> | testdata/<name> | gen
	BMuts []BMut `json:"bmuts,omitempty"`
}

// ---------------------------------------------------------------- tables

var blocks = []string{"aes128-cbc", "aes192-cbc", "aes256-cbc", "tripledes-cbc", "aes128-gcm"}

func blockURI(b string) string {
	switch b {
	case "aes128-cbc":
		return refenc.AES128CBC
	case "aes192-cbc":
		return refenc.AES192CBC
	case "aes256-cbc":
		return refenc.AES256CBC
	case "tripledes-cbc":
		return refenc.TripleDESCBC
	case "aes128-gcm":
		return refenc.AES128GCM
	}
	return ""
}

func actualURI(b string) string {
	switch b {
	case "aes192-gcm":
		return refenc.AES192GCM
	case "aes256-gcm":
		return refenc.AES256GCM
	}
	return blockURI(b)
}

var refListVariants = []string{"", "nouri", "empty", "hash", "match", "other", "nohash", "two"}

func spec(b string) refenc.BlockSpec { s, _ := refenc.Spec(blockURI(b)); return s }

func digestURI(d string) string {
	switch d {
	case "sha1":
		return refenc.DigestSHA1
	case "sha256":
		return refenc.LibDigestSHA256
	case "sha512":
		return refenc.LibDigestSHA512
	case "ripemd160":
		return refenc.LibDigestRIPEMD160
	}
	return ""
}

var algPool = []string{
	refenc.AES128CBC, refenc.AES192CBC, refenc.AES256CBC, refenc.TripleDESCBC, refenc.AES128GCM, refenc.AES256GCM,
	refenc.RSA15, refenc.RSAOAEPMGF1P, refenc.RSAOAEP11,
	refenc.DigestSHA1, refenc.LibDigestSHA256, refenc.DigestSHA256, refenc.LibDigestSHA512, refenc.LibDigestRIPEMD160, refenc.MGF1SHA1,
	"", "x", " ", refenc.AES128CBC + " ", strings.ToUpper(refenc.AES128CBC), "http://www.w3.org/2001/04/xmlenc#kw-aes128",
	"http://www.w3.org/2001/04/xmlenc#aes128-cb", "http://www.w3.org/2000/09/xmldsig#md5", "urn:x",
}

// retrievalURIs: what an attacker may put into ds:RetrievalMethod/@URI (and, without
// the leading '#', into an Id attribute).  Benign ones first.
var retrievalURIs = []string{
	"#_c11-key", "#_c11-other", "#nomatch", "", "#", "_c11-key", "http://example.com/keys#_c11-key", "#_c11-key#x",
	"#it's", "#key[1", "#key]1", "#]", "#[", "#a'][", "#\"", "#a\"b'c", "#x' or '1'='1", "#'", "#''", "#[@Id='x']", "#x'][@y='",
	"#../..", "#//*", "#*", "#.", "#@Id", "#a/b", "#a|b", "#a b", "# ", "#\t", "#%5B", "#&", "#<", "#é", "#\U0001F600", "#(", "#)", "#text()", "#a[b]c", "#a=b", "#{}", "#\\",
	"#" + strings.Repeat("k", 300), "#" + strings.Repeat("[", 40), "#" + strings.Repeat("'", 41),
}

func keyIDPool() []string {
	out := []string{"_c11-key", "", "_c11-other"}
	for _, u := range retrievalURIs[8:] {
		out = append(out, strings.TrimPrefix(u, "#"))
	}
	return out
}

var registered = map[string]bool{
	refenc.AES128CBC: true, refenc.AES192CBC: true, refenc.AES256CBC: true, refenc.TripleDESCBC: true, refenc.AES128GCM: true,
	refenc.RSA15: true, refenc.RSAOAEPMGF1P: true, refenc.RSAOAEP11: true,
}

// ---------------------------------------------------------------- deterministic octets

type stream struct {
	seed []byte
	ctr  uint64
	buf  []byte
}

func newStream(seed []byte, label string) *stream {
	h := sha256.Sum256(append(append([]byte{}, seed...), label...))
	return &stream{seed: h[:]}
}

func (s *stream) Read(p []byte) (int, error) {
	for i := range p {
		if len(s.buf) == 0 {
			var c [8]byte
			binary.BigEndian.PutUint64(c[:], s.ctr)
			s.ctr++
			h := sha256.Sum256(append(append([]byte{}, s.seed...), c[:]...))
			s.buf = h[:]
		}
		p[i] = s.buf[0]
		s.buf = s.buf[1:]
	}
	return len(p), nil
}

func expand(seed []byte, label string, n int) []byte {
	out := make([]byte, n)
	_, _ = newStream(seed, label).Read(out)
	return out
}

// ---------------------------------------------------------------- fixtures of the SP entry

const (
	idpMetaURL = "https://idp.example.com/metadata"
	idpSSOURL  = "https://idp.example.com/sso"
	spMetaURL  = "https://sp.example.com/saml/metadata"
	spAcsURL   = "https://sp.example.com/saml/acs"
	requestID  = "id-c11-request"
)

func mustURL(s string) url.URL {
	u, err := url.Parse(s)
	if err != nil {
		panic(err)
	}
	return *u
}

func newSP(keyName string) *saml.ServiceProvider {
	idpk := fix.Get("idp")
	idp := &saml.IdentityProvider{Key: idpk.Key, Certificate: idpk.Cert, MetadataURL: mustURL(idpMetaURL), SSOURL: mustURL(idpSSOURL)}
	k := fix.Get(keyName)
	return &saml.ServiceProvider{Key: k.Key, Certificate: k.Cert, MetadataURL: mustURL(spMetaURL), AcsURL: mustURL(spAcsURL), IDPMetadata: idp.Metadata()}
}

const assertionXML = `<saml:Assertion xmlns:saml="urn:oasis:names:tc:SAML:2.0:assertion" ID="id-c11-assertion" IssueInstant="2020-06-15T12:00:00Z" Version="2.0">` +
	`<saml:Issuer>` + idpMetaURL + `</saml:Issuer>` +
	`<saml:Subject><saml:NameID>attacker</saml:NameID><saml:SubjectConfirmation Method="urn:oasis:names:tc:SAML:2.0:cm:bearer">` +
	`<saml:SubjectConfirmationData InResponseTo="` + requestID + `" NotOnOrAfter="2020-06-15T12:05:00Z" Recipient="` + spAcsURL + `"/></saml:SubjectConfirmation></saml:Subject>` +
	`<saml:Conditions NotBefore="2020-06-15T11:55:00Z" NotOnOrAfter="2020-06-15T12:05:00Z"><saml:AudienceRestriction><saml:Audience>` + spMetaURL + `</saml:Audience></saml:AudienceRestriction></saml:Conditions>` +
	`<saml:AuthnStatement AuthnInstant="2020-06-15T12:00:00Z"/></saml:Assertion>`

const noSubjectXML = `<saml:Assertion xmlns:saml="urn:oasis:names:tc:SAML:2.0:assertion" ID="id-c11-assertion" IssueInstant="2020-06-15T12:00:00Z" Version="2.0">` +
	`<saml:Issuer>` + idpMetaURL + `</saml:Issuer></saml:Assertion>`

var plainKinds = []string{"assertion", "nosubject", "comment", "pi", "empty", "space", "text", "open", "bytes"}

func (c Case) plaintext() []byte {
	switch c.PlainKind {
	case "assertion":
		return []byte(assertionXML)
	case "nosubject":
		return []byte(noSubjectXML)
	case "comment":
		return []byte("<!-- no root element here -->")
	case "pi":
		return []byte("<?xml version=\"1.0\"?>\n<?target data?>")
	case "empty":
		return []byte{}
	case "space":
		return []byte(" \n\t ")
	case "text":
		return []byte("just text")
	case "open":
		return []byte("<saml:Assertion xmlns:saml=\"urn:oasis:names:tc:SAML:2.0:assertion\"><saml:Issuer>")
	}
	return c.Plain
}

// noRoot: the plaintext parses as an XML document without a root element (used only
// to put a case into the NIL_ROOT exclusion class and for the histogram).
func noRoot(plain []byte) bool {
	doc := etree.NewDocument()
	return doc.ReadFromBytes(plain) == nil && doc.Root() == nil
}

// ---------------------------------------------------------------- building the tree

type tree struct {
	ea   *etree.Element // saml:EncryptedAssertion container
	data *etree.Element
	key  *etree.Element // nil for direct transport
	// what the harness knows about the data cipher value it put in
	value []byte
	opt   refenc.Options // namespace spelling of the document
}

func setCV(el *etree.Element, v []byte) {
	cv := el.FindElement("./CipherData/CipherValue")
	if cv != nil {
		cv.SetText(base64.StdEncoding.EncodeToString(v))
	}
}

func certText(name string) string {
	return base64.StdEncoding.EncodeToString(fix.Get(name).Cert.Raw)
}

func (c Case) build() (*tree, error) {
	s := spec(c.Block)
	o := refenc.Options{BlockAlg: blockURI(c.Block), IV: c.IV, ContentKey: c.Key, PadFiller: c.Filler,
		Rand: newStream(c.Seed, "ref"), ID: "_c11-data", KeyID: "_c11-key", Sibling: c.Sibling}
	switch c.XencPrefix {
	case "other":
		o.XencPrefix = "e"
	case "default":
		o.XencPrefix = "-"
	}
	switch c.DsPrefix {
	case "other":
		o.DsPrefix = "dsig"
	case "default":
		o.DsPrefix = "-"
	}
	switch c.Transport {
	case "oaep-mgf1p":
		o.KeyTransport, o.Digest = refenc.RSAOAEPMGF1P, digestURI(c.Digest)
	case "oaep11":
		o.KeyTransport, o.Digest = refenc.RSAOAEP11, digestURI(c.Digest)
	case "pkcs1":
		o.KeyTransport = refenc.RSA15
	}
	if c.Kind == "cert" && c.Cert != "" {
		o.EmbedCert = true
	}
	if c.Kind == "mut" || c.Kind == "xml" {
		o.EmbedCert = true
	}
	plain := c.plaintext()
	data, key, err := refenc.EncryptParts(plain, fix.Get("sp").Cert, o)
	if err != nil {
		return nil, err
	}
	t := &tree{data: data, key: key, opt: o}
	t.value, _ = refenc.EncryptBlock(o.BlockAlg, c.Key, c.IV, plain, c.Filler)

	// kind-specific replacement of cipher values
	switch c.Kind {
	case "len":
		if c.OnKey && key != nil {
			setCV(key, c.CipherValue)
		} else {
			t.value = c.CipherValue
			setCV(data, c.CipherValue)
		}
	case "pad":
		body := expand(c.Seed, "body", c.NBlocks*s.Block)
		if len(body) > 0 {
			body[len(body)-1] = byte(c.Last)
		}
		v, err := refenc.EncryptBlockRaw(o.BlockAlg, c.Key, c.IV, body)
		if err != nil {
			return nil, err
		}
		t.value = v
		setCV(data, v)
	case "keysize":
		as, ok := refenc.Spec(actualURI(c.ActualAlg))
		if !ok {
			return nil, fmt.Errorf("unknown actual algorithm")
		}
		wrong := c.KeyBytes
		if c.Transport != "direct" {
			wrong = c.WrappedKey
		}
		v, err := refenc.EncryptBlock(as.Alg, wrong, expand(c.Seed, "actual-iv", as.IVLen), plain, c.Filler)
		if err != nil {
			return nil, err
		}
		t.value = v
		setCV(data, v)
	case "gcm":
		v := append([]byte{}, t.value...)
		switch c.GCMOp {
		case "flip":
			if len(v) == 0 {
				return nil, fmt.Errorf("nothing to flip")
			}
			p := c.GCMPos % (len(v) * 8)
			v[p/8] ^= 1 << uint(p%8)
		case "truncate":
			v = v[:c.GCMPos%len(v)]
		case "extend":
			v = append(v, expand(c.Seed, "ext", 1+c.GCMPos%17)...)
		case "dropnonce":
			v = v[12:]
		case "zerotag":
			for i := len(v) - 16; i < len(v); i++ {
				v[i] = 0
			}
			if bytes.Equal(v, t.value) {
				return nil, fmt.Errorf("tag already zero")
			}
		default:
			return nil, fmt.Errorf("unknown gcm op")
		}
		t.value = v
		setCV(data, v)
	}
	if c.HasWrappedKey && key != nil {
		tr, err := refenc.ReadTransport(key)
		if err != nil {
			return nil, err
		}
		w, err := refenc.WrapKey(tr, newStream(c.Seed, "wrap"), &fix.Get("sp").RSA().PublicKey, c.WrappedKey)
		if err != nil {
			return nil, err
		}
		setCV(key, w)
	}
	if c.Kind == "cert" && key != nil {
		x := key.FindElement("./KeyInfo/X509Data/X509Certificate")
		if x != nil {
			switch c.Cert {
			case "match":
				x.SetText(certText("sp"))
			case "match-wrapped":
				b := certText("sp")
				var sb strings.Builder
				for len(b) > 64 {
					sb.WriteString(b[:64] + "\n")
					b = b[64:]
				}
				sb.WriteString(b + "\n")
				x.SetText("\n" + sb.String())
			case "sp2", "attacker", "rsa1024":
				x.SetText(certText(c.Cert))
			case "ec":
				x.SetText(certText("spec"))
			case "garbage":
				x.SetText(base64.StdEncoding.EncodeToString(expand(c.Seed, "garbage", 300)))
			case "empty":
				x.SetText("")
			case "notb64":
				x.SetText("@@@ not base64 @@@")
			case "truncated":
				b := certText("sp")
				x.SetText(b[:len(b)/2])
			default:
				return nil, fmt.Errorf("unknown cert variant")
			}
			if c.CertSib != "" {
				xd := x.Parent()
				var sib *etree.Element
				mk := func(local string) *etree.Element {
					e := etree.NewElement(local)
					e.Space = x.Space
					return e
				}
				switch {
				case strings.HasPrefix(c.CertSib, "issuerserial"):
					sib = mk("X509IssuerSerial")
					in := mk("X509IssuerName")
					in.SetText("CN=sp.example.com,O=verif")
					sn := mk("X509SerialNumber")
					sn.SetText("1005")
					sib.AddChild(in)
					sib.AddChild(sn)
				case strings.HasPrefix(c.CertSib, "ski"):
					sib = mk("X509SKI")
					sib.SetText("MTIzNDU2Nzg5MDEyMzQ1Njc4OTA=")
				case strings.HasPrefix(c.CertSib, "subjectname"):
					sib = mk("X509SubjectName")
					sib.SetText("CN=sp.example.com,O=verif")
				case strings.HasPrefix(c.CertSib, "secondcert-match"):
					sib = mk("X509Certificate")
					sib.SetText(certText("sp"))
				}
				if sib != nil {
					if strings.HasSuffix(c.CertSib, "-before") {
						xd.InsertChildAt(x.Index(), sib)
					} else {
						xd.AddChild(sib)
					}
				}
			}
		}
	}

	if c.HasKeyID && key != nil {
		key.RemoveAttr("Id")
		key.CreateAttr("Id", c.KeyID)
	}

	// assemble
	t.ea = etree.NewElement("saml:EncryptedAssertion")
	t.ea.CreateAttr("xmlns:saml", refenc.NSSAML)
	t.ea.AddChild(data)
	if key != nil {
		if c.Sibling {
			t.ea.AddChild(key)
		} else {
			ki := o.KeyInfoElement()
			ki.AddChild(key)
			data.InsertChildAt(1, ki)
		}
	}
	var second *etree.Element
	if c.SecondKey != "" && key != nil {
		second = t.addKey(c.SecondKey == "before", "_c11-other", c.Seed)
	}
	t.addRefList(key, c.RefList)
	t.addRefList(second, c.SecondRefList)
	switch c.DataIDMode {
	case "absent":
		data.RemoveAttr("Id")
	case "empty":
		data.RemoveAttr("Id")
		data.CreateAttr("Id", "")
	}
	if c.HasURI {
		t.addRetrieval(c.URI, true)
	}
	// last, so that everything above still reads the EncryptionMethod the reference wrote
	for _, ch := range c.DataEM {
		t.addEMChild(data.FindElement("./EncryptionMethod"), ch)
	}
	if key != nil {
		for _, ch := range c.KeyEM {
			t.addEMChild(key.FindElement("./EncryptionMethod"), ch)
		}
	}
	return t, nil
}

var emTags = []string{"keysize", "foreign-keysize", "oaepparams", "digest", "mgf", "unknown", "text", "comment"}

// addEMChild puts one piece of optional / unexpected content into an EncryptionMethod.
func (t *tree) addEMChild(em *etree.Element, ch EMChild) bool {
	if em == nil {
		return false
	}
	var tok etree.Token
	carry := func(e *etree.Element) {
		switch ch.Form {
		case "cdata":
			e.SetCData(ch.Val)
		case "split":
			k := len(ch.Val) / 2
			for k > 0 && k < len(ch.Val) && ch.Val[k]&0xC0 == 0x80 {
				k--
			}
			e.CreateText(ch.Val[:k])
			e.CreateComment("c")
			e.CreateText(ch.Val[k:])
		case "nested":
			e.CreateElement(t.opt.XencTag("x")).SetText(ch.Val)
		case "attr":
			e.CreateAttr("Value", ch.Val)
		default:
			e.SetText(ch.Val)
		}
	}
	switch ch.Tag {
	case "keysize":
		e := etree.NewElement(t.opt.XencTag("KeySize"))
		carry(e)
		tok = e
	case "foreign-keysize": // same local name, another namespace
		e := etree.NewElement("foo:KeySize")
		e.CreateAttr("xmlns:foo", "urn:example:foreign")
		carry(e)
		tok = e
	case "oaepparams":
		e := etree.NewElement(t.opt.XencTag("OAEPparams"))
		carry(e)
		tok = e
	case "digest":
		e := etree.NewElement("dsx:DigestMethod")
		e.CreateAttr("xmlns:dsx", refenc.NSDsig)
		e.CreateAttr("Algorithm", ch.Val)
		tok = e
	case "mgf":
		e := etree.NewElement("xenc11x:MGF")
		e.CreateAttr("xmlns:xenc11x", "http://www.w3.org/2009/xmlenc11#")
		e.CreateAttr("Algorithm", ch.Val)
		tok = e
	case "unknown":
		e := etree.NewElement(t.opt.XencTag("x"))
		carry(e)
		tok = e
	case "text":
		if ch.Form == "cdata" {
			tok = etree.NewCData(ch.Val)
		} else {
			tok = etree.NewText(ch.Val)
		}
	case "comment":
		tok = etree.NewComment(strings.ReplaceAll(ch.Val, "-", "_"))
	default:
		return false
	}
	if ch.First {
		em.InsertChildAt(0, tok)
	} else {
		em.AddChild(tok)
	}
	return true
}

// keySizeClass puts the text of a KeySize child into a class relative to the real size (in bits) of
// the key the algorithm prescribes (histogram and the judged / don't-care split only).
func keySizeClass(val string, exactBits int) string {
	v := strings.TrimSpace(val)
	if v == "" {
		return "empty"
	}
	n, ok := new(big.Int).SetString(v, 10)
	if !ok {
		return "non-numeric"
	}
	switch {
	case n.Sign() < 0:
		return "negative"
	case n.Sign() == 0:
		return "zero"
	case !n.IsInt64() || n.Int64() > 1<<20:
		return "huge"
	case n.Int64() < int64(exactBits):
		return "smaller"
	case n.Int64() == int64(exactBits):
		return "exact"
	}
	return "larger"
}

// keySizeJudged: the must-reject classes and the reference-plaintext comparison are applied only
// when no KeySize is present or every KeySize of EncryptedData/EncryptionMethod is, literally, the
// real size of the declared algorithm's key; any other KeySize (and any KeySize on the
// EncryptedKey's method, where the property gives it no meaning) leaves totality only.
func (c Case) keySizeJudged() bool {
	exact := strconv.Itoa(spec(c.Block).KeyLen * 8)
	for _, ch := range c.DataEM {
		if (ch.Tag == "keysize" || ch.Tag == "foreign-keysize") && (ch.Val != exact || ch.Form != "") {
			return false
		}
	}
	for _, ch := range c.KeyEM {
		if ch.Tag == "keysize" || ch.Tag == "foreign-keysize" {
			return false
		}
	}
	for _, m := range c.Muts {
		if m.Op == "keysize" {
			return false
		}
	}
	return true
}

// emClasses: histogram names of the EncryptionMethod-content dimension.
func (c Case) emClasses() []string {
	var cl []string
	exact := spec(c.Block).KeyLen * 8
	for _, side := range []struct {
		name string
		list []EMChild
	}{{"data", c.DataEM}, {"key", c.KeyEM}} {
		nks := 0
		for _, ch := range side.list {
			cl = append(cl, "em-"+side.name+":"+ch.Tag)
			if ch.Form != "" {
				cl = append(cl, "em-form:"+ch.Form)
			}
			if ch.Tag == "keysize" || ch.Tag == "foreign-keysize" {
				nks++
				cl = append(cl, "keysize-"+side.name+":"+keySizeClass(ch.Val, exact))
			}
		}
		if nks > 1 {
			cl = append(cl, "em-"+side.name+":keysize-repeated")
		}
		if len(side.list) > 1 {
			cl = append(cl, "em-"+side.name+":several-children")
		}
	}
	if len(c.DataEM)+len(c.KeyEM) > 0 {
		if c.keySizeJudged() {
			cl = append(cl, "keysize:absent-or-exact(judged)")
		} else {
			cl = append(cl, "dont-care:keysize-not-exact")
		}
	}
	return cl
}

// addRetrieval puts a ds:RetrievalMethod into EncryptedData/KeyInfo (creating the KeyInfo).
func (t *tree) addRetrieval(uri string, first bool) {
	ki := t.data.FindElement("./KeyInfo")
	if ki == nil {
		ki = t.opt.KeyInfoElement()
		t.data.InsertChildAt(1, ki)
	}
	rm := etree.NewElement(t.opt.DsTag("RetrievalMethod")) // namespace declared by the KeyInfo it goes into
	rm.CreateAttr("Type", refenc.NSXenc+"EncryptedKey")
	rm.CreateAttr("URI", uri)
	if first {
		ki.InsertChildAt(0, rm)
	} else {
		ki.AddChild(rm)
	}
}

// addKey adds an EncryptedKey meant for ANOTHER recipient (same shape as the real one,
// other Id, cipher value wrapped to sp2's certificate) next to the real key.
// addRefList appends xenc:ReferenceList/xenc:DataReference to an EncryptedKey.
func (t *tree) addRefList(keyEl *etree.Element, variant string) {
	if keyEl == nil || variant == "" {
		return
	}
	rl := keyEl.CreateElement(t.opt.XencTag("ReferenceList"))
	add := func(uri string, has bool) {
		dr := rl.CreateElement(t.opt.XencTag("DataReference"))
		if has {
			dr.CreateAttr("URI", uri)
		}
	}
	switch variant {
	case "nouri":
		add("", false)
	case "empty":
		add("", true)
	case "hash":
		add("#", true)
	case "match":
		add("#_c11-data", true)
	case "other":
		add("#_c11-elsewhere", true)
	case "nohash":
		add("_c11-data", true)
	case "two":
		add("", false)
		add("#_c11-data", true)
	default:
		add(variant, true) // mutations may pass a literal URI
	}
}

func (t *tree) addKey(before bool, id string, seed []byte) *etree.Element {
	if t.key == nil || t.key.Parent() == nil {
		return nil
	}
	other := t.key.Copy()
	other.RemoveAttr("Id")
	other.CreateAttr("Id", id)
	if tr, err := refenc.ReadTransport(t.key); err == nil {
		if w, err := refenc.WrapKey(tr, newStream(seed, "otherkey"), &fix.Get("sp2").RSA().PublicKey, expand(seed, "otherck", 16)); err == nil {
			setCV(other, w)
		}
	}
	if x := other.FindElement("./KeyInfo/X509Data/X509Certificate"); x != nil {
		x.SetText(certText("sp2"))
	}
	par := t.key.Parent()
	if before {
		par.InsertChildAt(t.key.Index(), other)
	} else {
		par.InsertChildAt(t.key.Index()+1, other)
	}
	return other
}

// ---------------------------------------------------------------- structural mutations

func (t *tree) role(r string) *etree.Element {
	first := func(e *etree.Element, path string) *etree.Element {
		if e == nil {
			return nil
		}
		return e.FindElement(path)
	}
	switch r {
	case "data":
		return t.data
	case "data.em":
		return first(t.data, "./EncryptionMethod")
	case "data.ki":
		return first(t.data, "./KeyInfo")
	case "data.cd":
		return first(t.data, "./CipherData")
	case "data.cv":
		return first(t.data, "./CipherData/CipherValue")
	case "key":
		return t.key
	case "key.em":
		return first(t.key, "./EncryptionMethod")
	case "key.dm":
		return first(t.key, "./EncryptionMethod/DigestMethod")
	case "key.ki":
		return first(t.key, "./KeyInfo")
	case "key.x509":
		return first(t.key, "./KeyInfo/X509Data/X509Certificate")
	case "key.cd":
		return first(t.key, "./CipherData")
	case "key.cv":
		return first(t.key, "./CipherData/CipherValue")
	}
	return nil
}

var roles = []string{"data", "data.em", "data.ki", "data.cd", "data.cv", "key", "key.em", "key.dm", "key.ki", "key.x509", "key.cd", "key.cv"}

func (t *tree) apply(m Mut, seed []byte) bool {
	el := t.role(m.Target)
	if el == nil {
		return false
	}
	par := el.Parent()
	switch m.Op {
	case "remove":
		if par == nil {
			return false
		}
		par.RemoveChild(el)
	case "dup":
		if par == nil {
			return false
		}
		par.InsertChildAt(el.Index()+1, el.Copy())
	case "dupalt": // a differing copy placed FIRST
		if par == nil {
			return false
		}
		cp := el.Copy()
		if cp.SelectAttr("Algorithm") != nil {
			cp.CreateAttr("Algorithm", m.Arg)
		} else if len(cp.ChildElements()) == 0 {
			cp.SetText(m.Arg)
		}
		par.InsertChildAt(el.Index(), cp)
	case "nest":
		n := m.N
		if n < 1 {
			n = 1
		}
		if n > 200 {
			n = 200
		}
		cur := el
		for i := 0; i < n; i++ {
			cp := el.Copy()
			for _, ch := range cp.ChildElements() {
				if ch.Tag == el.Tag {
					cp.RemoveChild(ch)
				}
			}
			cur.AddChild(cp)
			cur = cp
		}
	case "attr":
		el.CreateAttr("Algorithm", m.Arg)
	case "rmattr":
		el.RemoveAttr("Algorithm")
	case "text":
		el.SetText(m.Arg)
	case "b64":
		n := m.N
		if n < 0 {
			n = 0
		}
		if n > 600 {
			n = 600
		}
		el.SetText(base64.StdEncoding.EncodeToString(expand(seed, "b64"+m.Target, n)))
	case "comment":
		txt := el.Text()
		if len(el.ChildElements()) != 0 {
			return false
		}
		k := 0
		if len(txt) > 0 {
			k = m.N % (len(txt) + 1)
			if k < 0 {
				k = 0
			}
		}
		el.SetText(txt[:k])
		el.CreateComment("c")
		el.CreateText(txt[k:])
	case "cdata":
		if len(el.ChildElements()) != 0 {
			return false
		}
		el.SetCData(el.Text())
	case "child":
		el.InsertChildAt(0, etree.NewElement(t.opt.XencTag("x")))
	case "keysize": // xenc:KeySize with text Arg inside the target EncryptionMethod (N odd: first)
		if el.Tag != "EncryptionMethod" {
			return false
		}
		return t.addEMChild(el, EMChild{Tag: "keysize", Val: m.Arg, First: m.N%2 == 1})
	case "rename":
		el.Tag = m.Arg
	case "space":
		el.Space = m.Arg
	case "keychain":
		// EncryptedData/KeyInfo/EncryptedKey[block alg]/KeyInfo/EncryptedKey[block alg]/… N deep
		n := m.N
		if n < 1 {
			n = 1
		}
		if n > 200 {
			n = 200
		}
		ki := t.role("data.ki")
		if ki == nil {
			ki = t.opt.KeyInfoElement()
			t.data.InsertChildAt(1, ki)
		}
		inner := t.key
		if inner != nil && inner.Parent() != nil {
			inner.Parent().RemoveChild(inner)
		}
		for _, ch := range ki.ChildElements() {
			ki.RemoveChild(ch)
		}
		cur := ki
		for i := 0; i < n; i++ {
			ek := cur.CreateElement(t.opt.XencTag("EncryptedKey"))
			t.opt.XencDecl(ek)
			ek.CreateElement(t.opt.XencTag("EncryptionMethod")).CreateAttr("Algorithm", m.Arg)
			nki := t.opt.KeyInfoElement()
			ek.AddChild(nki)
			cur = nki
			ek.CreateElement(t.opt.XencTag("CipherData")).CreateElement(t.opt.XencTag("CipherValue")).SetText(
				base64.StdEncoding.EncodeToString(expand(seed, fmt.Sprintf("chain%d", i), 16+(i*7)%49)))
		}
		if inner != nil {
			cur.AddChild(inner)
		}
	case "reflist": // xenc:ReferenceList/DataReference (variant or literal URI in Arg) inside the target EncryptedKey
		if el.Tag != "EncryptedKey" {
			return false
		}
		t.addRefList(el, m.Arg)
	case "retrieval": // ds:RetrievalMethod URI=Arg in EncryptedData/KeyInfo (N odd: after what is there)
		t.addRetrieval(m.Arg, m.N%2 == 0)
	case "setid": // Id attribute of the target (EncryptedKey / EncryptedData) := Arg; N odd: removed
		el.RemoveAttr("Id")
		if m.N%2 == 0 {
			el.CreateAttr("Id", m.Arg)
		}
	case "addkey": // a second EncryptedKey, for another recipient, Id=Arg, before (N even) or after the real one
		if t.key == nil || t.key.Parent() == nil {
			return false
		}
		t.addKey(m.N%2 == 0, m.Arg, seed)
	case "moveout": // nested key becomes a sibling
		if t.key == nil || t.key.Parent() == nil || t.key.Parent() == t.ea {
			return false
		}
		t.key.Parent().RemoveChild(t.key)
		t.ea.AddChild(t.key)
	case "movein": // sibling key ALSO copied into EncryptedData/KeyInfo
		if t.key == nil {
			return false
		}
		ki := t.role("data.ki")
		if ki == nil {
			ki = t.opt.KeyInfoElement()
			t.data.InsertChildAt(1, ki)
		}
		ki.AddChild(t.key.Copy())
	default:
		return false
	}
	return true
}

// ---------------------------------------------------------------- keys of every Go type

var keyKinds = []string{"content", "bytes", "rsa-ptr", "rsa-other", "rsa-val", "ecdsa", "string", "int", "nil"}

func (c Case) keyValue() any {
	switch c.KeyKind {
	case "content":
		return c.Key
	case "bytes":
		if c.KeyBytes == nil {
			return []byte{}
		}
		return c.KeyBytes
	case "rsa-ptr":
		return fix.Get("sp").RSA()
	case "rsa-other":
		return fix.Get("sp2").RSA()
	case "rsa-val":
		return *fix.Get("sp").RSA()
	case "ecdsa":
		return fix.Get("spec").EC()
	case "string":
		return string(c.KeyBytes)
	case "int":
		return len(c.KeyBytes)
	}
	return nil // untyped nil
}

// ---------------------------------------------------------------- exclusion classes (open defects)

func on(n string) bool { return os.Getenv("VERIF_EXCLUDE_"+n) == "1" }

// libView is what the package will read as the cipher value of el (first
// CipherData/CipherValue, its first text node): used ONLY to put a case into an
// exclusion class, never for a verdict.
func libView(el *etree.Element) (alg string, n int, ok bool) {
	em := el.FindElement("./EncryptionMethod")
	if em == nil {
		return "", 0, false
	}
	alg = em.SelectAttrValue("Algorithm", "")
	cv := el.FindElement("./CipherData/CipherValue")
	if cv == nil {
		return alg, 0, false
	}
	b, err := base64.StdEncoding.DecodeString(strings.TrimSpace(cv.Text()))
	if err != nil {
		return alg, 0, false
	}
	return alg, len(b), true
}

func walk(el *etree.Element, f func(*etree.Element)) {
	f(el)
	for _, ch := range el.ChildElements() {
		walk(ch, f)
	}
}

func excludedTree(root *etree.Element) bool {
	ex := false
	walk(root, func(el *etree.Element) {
		alg, n, ok := libView(el)
		s, known := refenc.Spec(alg)
		if !known {
			return
		}
		if on("3DES") && alg == refenc.TripleDESCBC {
			ex = true
		}
		if !ok {
			return
		}
		if on("CBC_LENGTH") && !s.GCM && (n < s.IVLen+s.Block || (n-s.IVLen)%s.Block != 0) {
			ex = true
		}
		if on("GCM_SHORT") && s.GCM && n < 28 {
			ex = true
		}
	})
	return ex
}

// ---------------------------------------------------------------- execution

func guard(f func() error) (err error, panicked bool) {
	defer func() {
		if e := recover(); e != nil {
			st := strings.Split(string(debug.Stack()), "\n")
			if len(st) > 30 {
				st = st[:30]
			}
			err = fmt.Errorf("PANIC: %v\n%s", e, strings.Join(st, "\n"))
			panicked = true
		}
	}()
	return f(), false
}

func (c Case) describe() string {
	s := fmt.Sprintf("kind=%s entry=%s block=%s transport=%s", c.Kind, c.Entry, c.Block, c.Transport)
	if c.XencPrefix != "" || c.DsPrefix != "" {
		s += fmt.Sprintf(" spelling(xmlenc=%q,xmldsig=%q)", c.XencPrefix, c.DsPrefix)
	}
	if c.Digest != "" {
		s += "/" + c.Digest
	}
	if c.Entry != "sp" {
		s += " key=" + c.KeyKind
		if c.KeyKind == "bytes" || c.KeyKind == "string" || c.KeyKind == "int" {
			s += fmt.Sprintf("(%d)", len(c.KeyBytes))
		}
	} else {
		s += fmt.Sprintf(" spkey=%s allow-idp-initiated=%v sibling=%v plaintext=%s", c.SPKey, c.SPAllowIDPInitiated, c.Sibling, c.PlainKind)
	}
	if len(c.DataEM) > 0 {
		s += fmt.Sprintf(" EncryptedData/EncryptionMethod-content=%+v", c.DataEM)
	}
	if len(c.KeyEM) > 0 {
		s += fmt.Sprintf(" EncryptedKey/EncryptionMethod-content=%+v", c.KeyEM)
	}
	switch c.Kind {
	case "len":
		s += fmt.Sprintf(" cipher-value=%d octets on-key=%v", len(c.CipherValue), c.OnKey)
	case "pad":
		s += fmt.Sprintf(" blocks=%d final-octet=%d", c.NBlocks, c.Last)
	case "gcm":
		s += fmt.Sprintf(" op=%s pos=%d", c.GCMOp, c.GCMPos)
	case "cert":
		s += " embedded-cert=" + c.Cert + " x509data-sibling=" + c.CertSib
	case "keysize":
		s += " ciphertext-made-with=" + c.ActualAlg
	case "refs":
		s += fmt.Sprintf(" second-key=%q reference-list=%q second-reference-list=%q data-id=%q", c.SecondKey, c.RefList, c.SecondRefList, c.DataIDMode)
	case "retr":
		s += fmt.Sprintf(" retrieval-uri=%q(present=%v) key-id=%q(present=%v) second-key=%q", c.URI, c.HasURI, c.KeyID, c.HasKeyID, c.SecondKey)
	case "mut":
		s += fmt.Sprintf(" muts=%v", c.Muts)
	case "xml":
		s += fmt.Sprintf(" file=%s bmuts=%d", c.File, len(c.BMuts))
	}
	return s
}

func wellFormed(c Case) bool {
	switch c.Entry {
	case "decrypt", "decrypt-key", "sp":
	default:
		return false
	}
	if c.Kind == "xml" {
		return c.Entry == "decrypt" && c.File != ""
	}
	if blockURI(c.Block) == "" {
		return false
	}
	s := spec(c.Block)
	if len(c.Key) != s.KeyLen || len(c.IV) != s.IVLen {
		return false
	}
	switch c.Transport {
	case "direct":
		if c.Entry == "decrypt-key" {
			return false
		}
	case "oaep-mgf1p", "oaep11":
		if c.Digest != "absent" && digestURI(c.Digest) == "" {
			return false
		}
	case "pkcs1":
	default:
		return false
	}
	if c.HasWrappedKey && len(c.WrappedKey) > 100 {
		return false
	}
	if len(c.RefList) > 300 || len(c.SecondRefList) > 300 || (c.SecondKey != "" && c.SecondKey != "before" && c.SecondKey != "after") {
		return false
	}
	if c.DataIDMode != "" && c.DataIDMode != "absent" && c.DataIDMode != "empty" {
		return false
	}
	if c.Entry == "sp" && c.SPKey != "sp" && c.SPKey != "spec" {
		return false
	}
	for _, p := range []string{c.XencPrefix, c.DsPrefix} {
		if p != "" && p != "other" && p != "default" {
			return false
		}
	}
	if len(c.DataEM) > 8 || len(c.KeyEM) > 8 || (len(c.KeyEM) > 0 && c.Transport == "direct") {
		return false
	}
	for _, l := range [][]EMChild{c.DataEM, c.KeyEM} {
		for _, ch := range l {
			okTag := false
			for _, tg := range emTags {
				okTag = okTag || tg == ch.Tag
			}
			switch ch.Form {
			case "", "cdata", "split", "nested", "attr":
			default:
				okTag = false
			}
			if !okTag || len(ch.Val) > 600 {
				return false
			}
		}
	}
	switch c.Kind {
	case "control", "len", "plain", "mut":
	case "emchild":
		if len(c.DataEM)+len(c.KeyEM) == 0 {
			return false
		}
	case "keysize":
		as, ok := refenc.Spec(actualURI(c.ActualAlg))
		if !ok || as.GCM != s.GCM {
			return false
		}
		if c.Transport == "direct" {
			if c.KeyKind != "bytes" || len(c.KeyBytes) != as.KeyLen || c.Entry != "decrypt" {
				return false
			}
		} else if !c.HasWrappedKey || len(c.WrappedKey) != as.KeyLen {
			return false
		}
	case "refs":
		if c.Transport == "direct" {
			return false
		}
	case "retr":
		if c.Transport == "direct" || len(c.URI) > 2000 || len(c.KeyID) > 2000 {
			return false
		}
		if c.SecondKey != "" && c.SecondKey != "before" && c.SecondKey != "after" {
			return false
		}
	case "pad":
		if s.GCM || c.NBlocks < 0 || c.NBlocks > 64 || c.Last < 0 || c.Last > 255 {
			return false
		}
	case "gcm":
		if !s.GCM || c.GCMPos < 0 {
			return false
		}
	case "cert":
		if c.Transport == "direct" {
			return false
		}
	default:
		return false
	}
	return len(c.Muts) <= 16 && len(c.plaintext()) <= 1<<16 && len(c.CipherValue) <= 1<<16
}

// intact reports whether the harness can predict the block layer's outcome: the tree
// is structurally what refenc built, the right key is handed over and the wrapped key
// is the content key.
func (c Case) intact() bool {
	if c.Kind == "mut" || c.Kind == "xml" || c.Kind == "retr" || c.Kind == "refs" || c.Kind == "keysize" || c.RefList != "" || c.SecondRefList != "" || c.DataIDMode != "" || c.HasURI || c.HasKeyID || c.SecondKey != "" || len(c.Muts) > 0 || c.HasWrappedKey || (c.Kind == "len" && c.OnKey) || !c.keySizeJudged() {
		return false
	}
	// Whether the package manages to unwrap the key at all (digest / MGF reading) is
	// C10's business: every judgement below is of the form "must be an error" or "IF
	// plaintext is returned it must be the reference plaintext", which stays valid.
	switch c.Entry {
	case "decrypt":
		if c.Transport == "direct" {
			return c.KeyKind == "content"
		}
		return c.KeyKind == "rsa-ptr"
	}
	return false
}

func fail(c Case, cl []string, f string, a ...any) pbt.Result {
	return pbt.Result{Err: c.describe() + ": " + fmt.Sprintf(f, a...), NonTrivial: true, Classes: cl}
}

func reaches(el *etree.Element) bool {
	if el == nil {
		return false
	}
	for _, ch := range el.ChildElements() {
		if ch.Tag == "EncryptionMethod" {
			if !registered[ch.SelectAttrValue("Algorithm", "")] {
				return false
			}
			for _, cd := range el.ChildElements() {
				if cd.Tag == "CipherData" {
					for _, cv := range cd.ChildElements() {
						if cv.Tag == "CipherValue" {
							return true
						}
					}
				}
			}
			return false
		}
	}
	return false
}

func lenClass(alg string, n int) string {
	s, ok := refenc.Spec(alg)
	if !ok {
		return "value:other-alg"
	}
	if s.GCM {
		switch {
		case n == 0:
			return "value:empty"
		case n < 12:
			return "value:<nonce"
		case n < 28:
			return "value:<nonce+tag"
		}
		return "value:>=nonce+tag"
	}
	switch {
	case n == 0:
		return "value:empty"
	case n < s.Block:
		return "value:<block"
	case n < 2*s.Block:
		if n == s.Block {
			return "value:iv-only"
		}
		return "value:<iv+block"
	case n%s.Block != 0:
		return "value:unaligned"
	}
	return "value:aligned"
}

func check(c Case) pbt.Result {
	if !wellFormed(c) {
		return pbt.Result{Skip: true}
	}
	if c.Kind == "xml" {
		return checkXML(c)
	}
	t, err := c.build()
	if err != nil {
		return pbt.Result{Skip: true}
	}
	cl := []string{"kind:" + c.Kind, "entry:" + c.Entry, "block:" + c.Block, "transport:" + c.Transport}
	if c.XencPrefix != "" {
		cl = append(cl, "spelling:xmlenc-"+c.XencPrefix)
	}
	if c.DsPrefix != "" {
		cl = append(cl, "spelling:xmldsig-"+c.DsPrefix)
	}
	applied := 0
	for _, m := range c.Muts {
		if t.apply(m, c.Seed) {
			applied++
			cl = append(cl, "mut:"+m.Op)
		}
	}
	if c.Kind == "mut" && applied == 0 {
		return pbt.Result{Skip: true}
	}
	hostile := func(v string) bool { return strings.ContainsAny(v, "'[]\"") }
	if c.HasURI {
		switch {
		case hostile(c.URI):
			cl = append(cl, "retrieval:uri-with-quote-or-bracket")
		case strings.HasPrefix(c.URI, "#"):
			cl = append(cl, "retrieval:uri-fragment")
		default:
			cl = append(cl, "retrieval:uri-other")
		}
		if c.HasKeyID && c.URI == "#"+c.KeyID {
			cl = append(cl, "retrieval:uri-matches-key-id")
		}
	}
	if c.HasKeyID {
		if hostile(c.KeyID) {
			cl = append(cl, "keyid:with-quote-or-bracket")
		} else {
			cl = append(cl, "keyid:plain")
		}
	}
	if c.SecondKey != "" {
		cl = append(cl, "keys:two-recipients")
	}
	if c.RefList != "" || c.SecondRefList != "" {
		cl = append(cl, "reflist:"+c.RefList+"/"+c.SecondRefList)
	}
	if c.DataIDMode != "" {
		cl = append(cl, "data-id:"+c.DataIDMode)
	}
	cl = append(cl, c.emClasses()...)
	if c.Entry == "decrypt-key" && t.key == nil {
		return pbt.Result{Skip: true}
	}

	// peer view
	root := t.ea
	data, key := t.data, t.key
	var wire []byte
	{
		r2, buf, err := refenc.Reparse(t.ea)
		wire = buf
		if c.Reparse || c.Entry == "sp" {
			if err != nil {
				if c.Entry != "sp" {
					return pbt.Result{Skip: true}
				}
			} else {
				root = r2
				data = firstByTag(root, "EncryptedData")
				key = firstByTag(root, "EncryptedKey")
				cl = append(cl, "tree:reparsed")
			}
		}
	}
	handed := root
	switch c.Entry {
	case "decrypt":
		handed = data
	case "decrypt-key":
		handed = key
	}
	if handed == nil {
		return pbt.Result{Skip: true}
	}
	if excludedTree(handed) || (on("NIL_ROOT") && c.Entry == "sp" && t.value != nil && noRoot(c.effectivePlain(t.value))) {
		return pbt.Result{Skip: true}
	}
	if alg, n, ok := libView(t.data); ok {
		cl = append(cl, lenClass(alg, n))
	}

	res := pbt.Result{Classes: cl}

	switch c.Entry {
	case "sp":
		cl = append(cl, "spkey:"+c.SPKey, "plain:"+c.PlainKind)
		if ep := c.effectivePlain(t.value); ep != nil && noRoot(ep) {
			cl = append(cl, "plain:no-root-element")
		}
		if c.Sibling {
			cl = append(cl, "layout:sibling")
		} else {
			cl = append(cl, "layout:nested")
		}
		res.Classes = cl
		res.NonTrivial = reaches(firstByTag(root, "EncryptedData"))
		resp := responseAround(wire)
		sp := newSP(c.SPKey)
		sp.AllowIDPInitiated = c.SPAllowIDPInitiated
		if c.SPAllowIDPInitiated {
			cl = append(cl, "spconf:allow-idp-initiated")
			res.Classes = cl
		}
		var got *saml.Assertion
		err, panicked := guard(func() error {
			var err error
			got, err = sp.ParseXMLResponse(resp, []string{requestID}, mustURL(spAcsURL))
			return err
		})
		if panicked {
			return fail(c, cl, "ServiceProvider.ParseXMLResponse panicked on an unsigned Response carrying an attacker-built EncryptedAssertion: %v", err)
		}
		if err == nil || got != nil {
			return fail(c, cl, "ServiceProvider.ParseXMLResponse accepted an unsigned attacker-built EncryptedAssertion")
		}
		return res

	case "decrypt", "decrypt-key":
		el := data
		if c.Entry == "decrypt-key" {
			el = key
		}
		if el == nil {
			return pbt.Result{Skip: true}
		}
		cl = append(cl, "key:"+c.KeyKind)
		res.Classes = cl
		res.NonTrivial = c.Kind != "control" && reaches(el)
		var out []byte
		err, panicked := guard(func() error {
			var err error
			out, err = xmlenc.Decrypt(c.keyValue(), el)
			return err
		})
		if panicked {
			return fail(c, cl, "xmlenc.Decrypt panicked: %v", err)
		}
		if err == nil {
			res.Classes = append(res.Classes, "outcome:plaintext")
		} else {
			res.Classes = append(res.Classes, "outcome:error")
		}
		cl = res.Classes

		// a key whose size is not the size of the DECLARED algorithm => must reject, whatever
		// else that size would be right for (the tree is structurally what the reference built)
		if c.Entry == "decrypt" && c.Kind != "mut" && c.Kind != "xml" && len(c.Muts) == 0 && c.keySizeJudged() {
			want := spec(c.Block).KeyLen
			wrongDirect := c.Transport == "direct" && c.KeyKind == "bytes" && len(c.KeyBytes) != want
			wrongWrapped := c.Transport != "direct" && c.KeyKind == "rsa-ptr" && c.HasWrappedKey && len(c.WrappedKey) != want
			if wrongDirect || wrongWrapped {
				n := len(c.KeyBytes)
				if wrongWrapped {
					n = len(c.WrappedKey)
				}
				if n == 8 || n == 16 || n == 24 || n == 32 {
					cl = append(cl, "must-reject:key-size-of-another-variant")
				} else {
					cl = append(cl, "must-reject:key-size")
				}
				res.Classes = cl
				if err == nil {
					return fail(c, cl, "a %d-octet key was accepted for %s, which needs %d octets (returned %d octets of 'plaintext')", n, blockURI(c.Block), want, len(out))
				}
			}
		}

		// embedded certificate that does not match the supplied RSA key => must reject
		if c.Kind == "cert" && c.Entry == "decrypt" || c.Kind == "cert" && c.Entry == "decrypt-key" {
			// only a REAL certificate of another key is "a certificate that does not match";
			// garbage / empty / truncated text is don't-care (totality only)
			mismatch := false
			realCert := c.Cert == "match" || c.Cert == "match-wrapped" || c.Cert == "sp2" || c.Cert == "attacker" || c.Cert == "rsa1024" || c.Cert == "ec"
			switch c.KeyKind {
			case "rsa-ptr":
				mismatch = c.Cert != "match" && c.Cert != "match-wrapped"
			case "rsa-other":
				mismatch = c.Cert != "sp2"
			}
			if !realCert {
				cl = append(cl, "dont-care:cert-unparseable")
				res.Classes = cl
			}
			// two certificates of which one matches: the property does not say which one counts
			if mismatch && realCert && c.CertSib != "secondcert-match-after" && len(c.Muts) == 0 && (c.KeyKind == "rsa-ptr" || c.KeyKind == "rsa-other") {
				cl = append(cl, "must-reject:cert-mismatch")
				res.Classes = cl
				if err == nil {
					return fail(c, cl, "an RSA-wrapped key whose embedded certificate (%s) does not match the supplied private key (%s) was decrypted", c.Cert, c.KeyKind)
				}
			}
		}

		if c.Entry == "decrypt" && c.intact() {
			return judgeBlock(c, t.value, out, err, res)
		}
		return res
	}
	return pbt.Result{Skip: true}
}

// judgeBlock applies the block-layer oracle to an intact tree opened with the right key.
func judgeBlock(c Case, value, out []byte, err error, res pbt.Result) pbt.Result {
	s := spec(c.Block)
	cl := res.Classes
	if s.GCM {
		want, rerr := refenc.DecryptBlock(s.Alg, c.Key, value)
		if rerr != nil {
			cl = append(cl, "must-reject:gcm")
			res.Classes = cl
			if err == nil {
				return fail(c, cl, "a GCM cipher value that does not authenticate (%d octets) was decrypted to %x", len(value), out)
			}
			return res
		}
		if err == nil && !bytes.Equal(out, want) {
			return fail(c, cl, "GCM plaintext differs from the reference: got %x want %x", out, want)
		}
		return res
	}
	raw, rerr := refenc.DecryptBlockRaw(s.Alg, c.Key, value)
	if rerr != nil {
		cl = append(cl, "must-reject:cbc-length")
		res.Classes = cl
		if err == nil {
			return fail(c, cl, "a CBC cipher value of %d octets (not IV plus a positive number of %d-octet blocks) was decrypted to %x", len(value), s.Block, out)
		}
		return res
	}
	last := int(raw[len(raw)-1])
	switch {
	case last == 0:
		cl = append(cl, "must-reject:pad-zero")
		res.Classes = cl
		if err == nil {
			return fail(c, cl, "final pad octet 0 was accepted (returned %d octets)", len(out))
		}
	case last > len(raw):
		cl = append(cl, "must-reject:pad-too-long")
		res.Classes = cl
		if err == nil {
			return fail(c, cl, "final pad octet %d exceeds the %d decrypted octets but was accepted", last, len(raw))
		}
	default:
		if last > s.Block {
			cl = append(cl, "dont-care:pad>block")
		} else {
			cl = append(cl, "pad:1..block")
		}
		res.Classes = cl
		if err == nil && !bytes.Equal(out, raw[:len(raw)-last]) {
			return fail(c, cl, "returned plaintext %x is not the decrypted data minus its %d pad octets (%x)", out, last, raw[:len(raw)-last])
		}
	}
	return res
}

// effectivePlain is what a lenient decrypter would obtain from the data cipher value
// the harness put in (nil when there is nothing to obtain).
func (c Case) effectivePlain(value []byte) []byte {
	s := spec(c.Block)
	if s.GCM {
		p, err := refenc.DecryptBlock(s.Alg, c.Key, value)
		if err != nil {
			return nil
		}
		return p
	}
	raw, err := refenc.DecryptBlockRaw(s.Alg, c.Key, value)
	if err != nil {
		return nil
	}
	last := int(raw[len(raw)-1])
	if last < 1 || last > len(raw) {
		return nil
	}
	return raw[:len(raw)-last]
}

func firstByTag(root *etree.Element, tag string) *etree.Element {
	var found *etree.Element
	walk(root, func(e *etree.Element) {
		if found == nil && e.Tag == tag {
			found = e
		}
	})
	return found
}

func responseAround(encryptedAssertion []byte) []byte {
	var b bytes.Buffer
	b.WriteString(`<samlp:Response xmlns:samlp="urn:oasis:names:tc:SAML:2.0:protocol" xmlns:saml="urn:oasis:names:tc:SAML:2.0:assertion" ID="id-c11-response" InResponseTo="` + requestID + `" Version="2.0" IssueInstant="2020-06-15T12:00:00Z" Destination="` + spAcsURL + `">`)
	b.WriteString(`<saml:Issuer>` + idpMetaURL + `</saml:Issuer><samlp:Status><samlp:StatusCode Value="urn:oasis:names:tc:SAML:2.0:status:Success"/></samlp:Status>`)
	b.Write(encryptedAssertion)
	b.WriteString(`</samlp:Response>`)
	return b.Bytes()
}

// ---------------------------------------------------------------- kind xml: documents + byte mutations

func repoDir() string {
	if r := os.Getenv("VERIF_REPO"); r != "" {
		return r
	}
	return "/repo"
}

var (
	fileMu    sync.Mutex
	fileCache = map[string][]byte{}
)

func corpusFiles() []string {
	var out []string
	for _, d := range []string{"corpus", "testdata"} {
		m, _ := filepath.Glob(filepath.Join(repoDir(), "xmlenc", d, "*.xml"))
		sort.Strings(m)
		for _, f := range m {
			out = append(out, d+"/"+filepath.Base(f))
		}
	}
	return out
}

func loadFile(name string) []byte {
	fileMu.Lock()
	defer fileMu.Unlock()
	if b, ok := fileCache[name]; ok {
		return b
	}
	if strings.Contains(name, "..") {
		return nil
	}
	b, err := os.ReadFile(filepath.Join(repoDir(), "xmlenc", filepath.FromSlash(name)))
	if err != nil {
		b = nil
	}
	fileCache[name] = b
	return b
}

func applyBMuts(doc []byte, ms []BMut) []byte {
	out := append([]byte{}, doc...)
	for _, m := range ms {
		if len(out) == 0 {
			break
		}
		p := m.Pos % len(out)
		if p < 0 {
			p = 0
		}
		n := m.Len
		if n < 1 {
			n = 1
		}
		if p+n > len(out) {
			n = len(out) - p
		}
		switch m.Op {
		case "flip":
			out[p] ^= 1 << uint(m.Len&7)
		case "del":
			out = append(out[:p], out[p+n:]...)
		case "ins":
			out = append(out[:p], append(append([]byte{}, m.Val...), out[p:]...)...)
		case "dup":
			out = append(out[:p+n], append(append([]byte{}, out[p:p+n]...), out[p+n:]...)...)
		case "set":
			for i := 0; i < len(m.Val) && p+i < len(out); i++ {
				out[p+i] = m.Val[i]
			}
		}
	}
	return out
}

func checkXML(c Case) pbt.Result {
	var base []byte
	if c.File == "gen" {
		if blockURI(c.Block) == "" || len(c.Key) != spec(c.Block).KeyLen || len(c.IV) != spec(c.Block).IVLen {
			return pbt.Result{Skip: true}
		}
		cc := c
		cc.Kind = "control"
		t, err := cc.build()
		if err != nil {
			return pbt.Result{Skip: true}
		}
		_, base, err = refenc.Reparse(t.ea)
		if err != nil {
			return pbt.Result{Skip: true}
		}
	} else {
		base = loadFile(c.File)
		if base == nil {
			return pbt.Result{Skip: true}
		}
	}
	cl := []string{"kind:xml", "entry:decrypt", "key:" + c.KeyKind}
	if c.File == "gen" {
		cl = append(cl, "xml:generated")
		cl = append(cl, c.emClasses()...)
	} else {
		cl = append(cl, "xml:repository-file")
	}
	docBytes := applyBMuts(base, c.BMuts)
	doc := etree.NewDocument()
	if err := doc.ReadFromBytes(docBytes); err != nil || doc.Root() == nil {
		return pbt.Result{Classes: append(cl, "xml:unparseable")}
	}
	if excludedTree(doc.Root()) {
		return pbt.Result{Skip: true}
	}
	var els []*etree.Element
	walk(doc.Root(), func(e *etree.Element) {
		if len(els) < 40 && (e == doc.Root() || e.Tag == "EncryptedData" || e.Tag == "EncryptedKey") {
			els = append(els, e)
		}
	})
	res := pbt.Result{Classes: cl}
	for _, el := range els {
		if reaches(el) {
			res.NonTrivial = true
		}
		err, panicked := guard(func() error {
			_, err := xmlenc.Decrypt(c.keyValue(), el)
			return err
		})
		if panicked {
			return fail(c, cl, "xmlenc.Decrypt panicked on element <%s> of the mutated document: %v", el.Tag, err)
		}
	}
	if res.NonTrivial {
		res.Classes = append(res.Classes, "xml:reaches-decrypter")
	}
	return res
}

// ---------------------------------------------------------------- generator

func genBytes(t *rapid.T, n int, label string) []byte {
	switch rapid.IntRange(0, 5).Draw(t, label+"-class") {
	case 0:
		return make([]byte, n)
	case 1:
		return bytes.Repeat([]byte{0xff}, n)
	}
	return rapid.SliceOfN(rapid.Byte(), n, n).Draw(t, label)
}

type tcombo struct{ transport, digest string }

var tcombos = []tcombo{
	{"direct", ""}, {"direct", ""},
	{"oaep-mgf1p", "sha1"}, {"oaep-mgf1p", "sha1"}, {"oaep-mgf1p", "sha256"}, {"oaep-mgf1p", "sha512"}, {"oaep-mgf1p", "ripemd160"}, {"oaep-mgf1p", "absent"},
	{"oaep11", "sha1"}, {"oaep11", "sha256"},
	{"pkcs1", ""}, {"pkcs1", ""},
}

func genBase(t *rapid.T, c *Case) {
	c.Block = rapid.SampledFrom(blocks).Draw(t, "block")
	s := spec(c.Block)
	cb := rapid.SampledFrom(tcombos).Draw(t, "transport")
	c.Transport, c.Digest = cb.transport, cb.digest
	c.Key = genBytes(t, s.KeyLen, "key")
	c.IV = genBytes(t, s.IVLen, "iv")
	c.Filler = rapid.SliceOfN(rapid.Byte(), 0, s.Block-1).Draw(t, "filler")
	c.Seed = rapid.SliceOfN(rapid.Byte(), 6, 6).Draw(t, "seed")
	c.PlainKind = rapid.SampledFrom(plainKinds).Draw(t, "plain-kind")
	if c.PlainKind == "bytes" {
		c.Plain = rapid.SliceOfN(rapid.Byte(), 0, 70).Draw(t, "plain")
	}
	c.Reparse = rapid.Bool().Draw(t, "reparse")
	spell := []string{"", "", "other", "default"}
	c.XencPrefix = rapid.SampledFrom(spell).Draw(t, "xenc-prefix")
	c.DsPrefix = rapid.SampledFrom(spell).Draw(t, "ds-prefix")
}

func genKeyKind(t *rapid.T, c *Case) {
	right := "content"
	if c.Transport != "direct" {
		right = "rsa-ptr"
	}
	if rapid.IntRange(0, 2).Draw(t, "right-key") > 0 {
		c.KeyKind = right
		return
	}
	c.KeyKind = rapid.SampledFrom(keyKinds).Draw(t, "key-kind")
	switch c.KeyKind {
	case "bytes", "string", "int":
		n := rapid.IntRange(0, 40).Draw(t, "key-len")
		c.KeyBytes = genBytes(t, n, "key-bytes")
	}
}

func genEntry(t *rapid.T, c *Case) {
	e := rapid.SampledFrom([]string{"decrypt", "decrypt", "decrypt", "sp", "sp", "decrypt-key"}).Draw(t, "entry")
	if c.Transport == "direct" && e != "decrypt" {
		if e == "decrypt-key" {
			e = "decrypt"
		} else {
			c.Transport, c.Digest = "oaep-mgf1p", "sha1"
		}
	}
	c.Entry = e
	if e == "sp" {
		c.Sibling = rapid.Bool().Draw(t, "sibling")
		c.SPKey = rapid.SampledFrom([]string{"sp", "sp", "sp", "spec"}).Draw(t, "sp-key")
		c.SPAllowIDPInitiated = rapid.Bool().Draw(t, "allow-idp-initiated")
	} else {
		genKeyKind(t, c)
	}
}

// genFragment draws a RetrievalMethod URI (withHash) or an Id value: from the pool, or
// composed of the characters that matter to path / query builders.
func genFragment(t *rapid.T, label string, withHash bool) string {
	var v string
	if rapid.IntRange(0, 2).Draw(t, label+"-pool") > 0 {
		v = rapid.SampledFrom(retrievalURIs).Draw(t, label)
		if !withHash {
			v = strings.TrimPrefix(v, "#")
		}
		return v
	}
	parts := rapid.SliceOfN(rapid.SampledFrom([]string{"a", "k1", "_c11-key", "'", "\"", "[", "]", "@", "=", "/", "*", ".", " ", "(", ")", "|", "&", "#", "%27", "é"}), 0, 8).Draw(t, label+"-parts")
	v = strings.Join(parts, "")
	if withHash && rapid.IntRange(0, 4).Draw(t, label+"-hash") > 0 {
		v = "#" + v
	}
	return v
}

func genMut(t *rapid.T, i int) Mut {
	l := fmt.Sprintf("m%d-", i)
	m := Mut{Target: rapid.SampledFrom(roles).Draw(t, l+"target")}
	m.Op = rapid.SampledFrom([]string{"remove", "dup", "dupalt", "nest", "attr", "attr", "attr", "rmattr", "text", "b64", "b64", "comment", "cdata", "child", "keysize", "keysize", "rename", "space", "keychain", "moveout", "movein", "retrieval", "retrieval", "setid", "addkey", "reflist"}).Draw(t, l+"op")
	switch m.Op {
	case "attr", "dupalt", "keychain":
		m.Arg = rapid.SampledFrom(algPool).Draw(t, l+"alg")
		if m.Op == "keychain" {
			m.Arg = rapid.SampledFrom(algPool[:9]).Draw(t, l+"chain-alg")
			m.N = rapid.IntRange(1, 60).Draw(t, l+"n")
		}
	case "keysize":
		m.Target = rapid.SampledFrom([]string{"data.em", "data.em", "key.em"}).Draw(t, l+"em-target")
		m.Arg = genKeySizeText(t, l+"keysize", 128)
		m.N = rapid.IntRange(0, 1).Draw(t, l+"n")
	case "retrieval":
		m.Target = "data"
		m.Arg = genFragment(t, l+"uri", true)
		m.N = rapid.IntRange(0, 1).Draw(t, l+"n")
	case "setid":
		m.Target = rapid.SampledFrom([]string{"key", "key", "key", "data"}).Draw(t, l+"id-target")
		m.Arg = genFragment(t, l+"id", false)
		m.N = rapid.IntRange(0, 3).Draw(t, l+"n")
	case "reflist":
		m.Target = "key"
		m.Arg = rapid.SampledFrom(append(refListVariants[1:], "#it's", "##", "# ")).Draw(t, l+"reflist")
	case "addkey":
		m.Target = "key"
		m.Arg = genFragment(t, l+"id", false)
		m.N = rapid.IntRange(0, 1).Draw(t, l+"n")
	case "text":
		m.Arg = rapid.SampledFrom([]string{"", " ", "=", "A", "AA", "AAA", "AAAA", "AAAA AAAA", "AAAA\nAAAA", "!!!!", "AAAA====", "AAA=", "é", "QUJD" + strings.Repeat("QUJD", 11)}).Draw(t, l+"text")
	case "b64", "comment":
		m.N = rapid.IntRange(0, 90).Draw(t, l+"n")
	case "nest":
		m.N = rapid.IntRange(1, 40).Draw(t, l+"n")
	case "rename":
		m.Arg = rapid.SampledFrom([]string{"EncryptedKey", "EncryptedData", "CipherValue", "CipherData", "KeyInfo", "EncryptionMethod", "X", "CipherReference", "DigestMethod"}).Draw(t, l+"tag")
	case "space":
		m.Arg = rapid.SampledFrom([]string{"", "ds", "xenc", "saml"}).Draw(t, l+"prefix")
	}
	return m
}

var keySizeHuge = []string{"2147483640", "2147483647", "2147483648", "4294967296", "4294967304", "9223372036854775800", "9223372036854775807", "9223372036854775808",
	"-2147483648", "-9223372036854775808", "18446744073709551616", "1" + strings.Repeat("0", 40), "-1" + strings.Repeat("0", 40)}

var keySizeNonNumeric = []string{"", " ", "\n", "x", "128x", "0x80", "1e3", "12.5", "+128", "128 ", " 256", "\n192\n", "-", "--8", "1_28", "١٢٨", "NaN", "128 128", "0128", "-0"}

// genKeySizeText draws the text of a KeySize child: every class relative to the real key size.
func genKeySizeText(t *rapid.T, label string, exactBits int) string {
	switch rapid.IntRange(0, 11).Draw(t, label+"-class") {
	case 0, 1:
		return strconv.Itoa(exactBits)
	case 2: // the size of another variant
		return strconv.Itoa(rapid.SampledFrom([]int{64, 128, 168, 192, 256, 384, 512}).Draw(t, label+"-variant"))
	case 3:
		return strconv.Itoa(-8 * rapid.IntRange(1, 1<<16).Draw(t, label+"-neg8"))
	case 4:
		return strconv.Itoa(-rapid.IntRange(1, 1<<20).Draw(t, label+"-neg"))
	case 5:
		return "0"
	case 6:
		return strconv.Itoa(rapid.IntRange(1, exactBits-1).Draw(t, label+"-small"))
	case 7:
		return strconv.Itoa(exactBits + rapid.IntRange(1, 4096).Draw(t, label+"-larger"))
	case 8:
		return strconv.Itoa(8 * rapid.IntRange(exactBits/8+1, 1<<14).Draw(t, label+"-larger8"))
	case 9:
		return rapid.SampledFrom(keySizeHuge).Draw(t, label+"-huge")
	case 10:
		return strconv.Itoa(exactBits + 8*rapid.IntRange(-2, 2).Draw(t, label+"-near"))
	}
	return rapid.SampledFrom(keySizeNonNumeric).Draw(t, label+"-nan")
}

func genEMChildren(t *rapid.T, label string, exactBits int) []EMChild {
	n := rapid.SampledFrom([]int{1, 1, 1, 2, 2, 3}).Draw(t, label+"-n")
	var out []EMChild
	for i := 0; i < n; i++ {
		l := fmt.Sprintf("%s%d-", label, i)
		ch := EMChild{Tag: rapid.SampledFrom([]string{"keysize", "keysize", "keysize", "keysize", "keysize", "foreign-keysize", "oaepparams", "oaepparams", "digest", "mgf", "unknown", "text", "comment"}).Draw(t, l+"tag")}
		ch.First = rapid.Bool().Draw(t, l+"first")
		switch ch.Tag {
		case "keysize", "foreign-keysize":
			ch.Val = genKeySizeText(t, l+"keysize", exactBits)
		case "oaepparams":
			ch.Val = rapid.SampledFrom([]string{"", "AAAA", "9lWu3Q==", "bGFiZWw=", "!!!", "=", "AAA", strings.Repeat("QUJD", 100)}).Draw(t, l+"params")
		case "digest", "mgf":
			ch.Val = rapid.SampledFrom(algPool).Draw(t, l+"alg")
		default:
			ch.Val = rapid.SampledFrom([]string{"", " ", "x", "128", "\n  ", "<&>", strings.Repeat("y", 300)}).Draw(t, l+"text")
		}
		if ch.Tag != "digest" && ch.Tag != "mgf" && ch.Tag != "comment" {
			ch.Form = rapid.SampledFrom([]string{"", "", "", "", "cdata", "split", "nested", "attr"}).Draw(t, l+"form")
			if ch.Tag == "text" && ch.Form != "cdata" {
				ch.Form = ""
			}
		}
		out = append(out, ch)
	}
	return out
}

// genEM draws the EncryptionMethod-content dimension for the data and / or the key element.
func genEM(t *rapid.T, c *Case) {
	exact := spec(c.Block).KeyLen * 8
	where := "data"
	if c.Transport != "direct" {
		where = rapid.SampledFrom([]string{"data", "data", "key", "both"}).Draw(t, "em-where")
	}
	if where != "key" {
		c.DataEM = genEMChildren(t, "em-data", exact)
	}
	if where != "data" {
		c.KeyEM = genEMChildren(t, "em-key", exact)
	}
}

func gen(t *rapid.T) Case {
	var c Case
	c.Kind = rapid.SampledFrom([]string{"len", "len", "len", "pad", "pad", "gcm", "gcm", "cert", "plain", "retr", "retr", "refs", "refs", "keysize", "keysize", "emchild", "emchild", "emchild", "mut", "mut", "mut", "mut", "xml", "xml", "control"}).Draw(t, "kind")
	if c.Kind == "xml" {
		c.Entry = "decrypt"
		files := append([]string{"gen", "gen", "gen"}, corpusFiles()...)
		c.File = rapid.SampledFrom(files).Draw(t, "file")
		if c.File == "gen" {
			genBase(t, &c)
			if rapid.IntRange(0, 3).Draw(t, "with-em") == 0 {
				genEM(t, &c)
			}
		}
		genKeyKind(t, &c)
		if c.KeyKind == "content" && c.File != "gen" {
			c.KeyKind = "rsa-ptr"
		}
		n := rapid.IntRange(0, 6).Draw(t, "nbmuts")
		for i := 0; i < n; i++ {
			l := fmt.Sprintf("b%d-", i)
			m := BMut{Op: rapid.SampledFrom([]string{"flip", "del", "ins", "dup", "set"}).Draw(t, l+"op"),
				Pos: rapid.IntRange(0, 20000).Draw(t, l+"pos"), Len: rapid.IntRange(0, 40).Draw(t, l+"len")}
			if m.Op == "ins" || m.Op == "set" {
				m.Val = []byte(rapid.SampledFrom([]string{"<", ">", "/", "\"", "=", "A", "AAAA", " ", "<!--", "-->", "<x>", "</x>", "&#0;", "==", "\n"}).Draw(t, l+"val"))
			}
			c.BMuts = append(c.BMuts, m)
		}
		return c
	}
	genBase(t, &c)
	s := spec(c.Block)
	switch c.Kind {
	case "pad":
		if s.GCM {
			c.Block = rapid.SampledFrom(blocks[:4]).Draw(t, "cbc-block")
			s = spec(c.Block)
			c.Key = genBytes(t, s.KeyLen, "key2")
			c.IV = genBytes(t, s.IVLen, "iv2")
		}
	case "gcm":
		c.Block = "aes128-gcm"
		s = spec(c.Block)
		c.Key = genBytes(t, s.KeyLen, "key2")
		c.IV = genBytes(t, s.IVLen, "iv2")
	case "cert", "retr", "refs":
		if c.Transport == "direct" {
			c.Transport, c.Digest = "pkcs1", ""
		}
	}
	genEntry(t, &c)
	// optional / unexpected content of the EncryptionMethod elements: always for kind emchild, now and then for every other kind
	if c.Kind == "emchild" || rapid.IntRange(0, 4).Draw(t, "with-em") == 0 {
		genEM(t, &c)
	}
	if c.Kind == "keysize" {
		// a key of a size that is valid for ANOTHER variant of the family, and a ciphertext that
		// really opens under it
		var fam []string
		if s.GCM {
			fam = []string{"aes128-gcm", "aes192-gcm", "aes256-gcm"}
		} else {
			fam = []string{"aes128-cbc", "aes192-cbc", "aes256-cbc", "tripledes-cbc"}
		}
		var other []string
		for _, a := range fam {
			if as, _ := refenc.Spec(actualURI(a)); as.KeyLen != s.KeyLen {
				other = append(other, a)
			}
		}
		c.ActualAlg = rapid.SampledFrom(other).Draw(t, "actual-alg")
		as, _ := refenc.Spec(actualURI(c.ActualAlg))
		wrong := genBytes(t, as.KeyLen, "wrong-size-key")
		if c.Transport == "direct" {
			c.Entry, c.KeyKind, c.KeyBytes = "decrypt", "bytes", wrong
		} else {
			if c.Entry == "decrypt-key" {
				c.Entry = "decrypt"
			}
			if c.Entry == "decrypt" {
				c.KeyKind, c.KeyBytes = "rsa-ptr", nil
			}
			c.HasWrappedKey, c.WrappedKey = true, wrong
		}
		c.PlainKind, c.Plain = "bytes", rapid.SliceOfN(rapid.Byte(), 0, 70).Draw(t, "keysize-plain")
		return c
	}
	if c.Kind == "refs" {
		if c.Entry != "sp" && rapid.IntRange(0, 3).Draw(t, "refs-sp") > 0 {
			c.Entry, c.KeyKind, c.KeyBytes = "sp", "", nil
			c.SPKey = "sp"
			c.SPAllowIDPInitiated = rapid.Bool().Draw(t, "allow-idp-initiated")
		}
		c.Sibling = rapid.IntRange(0, 3).Draw(t, "refs-sibling") > 0
		c.SecondKey = rapid.SampledFrom([]string{"before", "after", "before", ""}).Draw(t, "second-key")
		c.RefList = rapid.SampledFrom(refListVariants).Draw(t, "ref-list")
		if c.SecondKey != "" {
			c.SecondRefList = rapid.SampledFrom(refListVariants).Draw(t, "second-ref-list")
		}
		c.DataIDMode = rapid.SampledFrom([]string{"", "", "absent", "empty"}).Draw(t, "data-id")
	}
	if c.Kind == "retr" {
		if c.Entry != "sp" && rapid.IntRange(0, 2).Draw(t, "retr-sp") > 0 {
			c.Entry, c.KeyKind, c.KeyBytes = "sp", "", nil
			c.Sibling = rapid.Bool().Draw(t, "sibling")
			c.SPKey = "sp"
			c.SPAllowIDPInitiated = rapid.Bool().Draw(t, "allow-idp-initiated")
		}
		c.HasURI = rapid.IntRange(0, 9).Draw(t, "has-uri") > 0
		if c.HasURI {
			c.URI = genFragment(t, "uri", true)
		}
		switch rapid.IntRange(0, 3).Draw(t, "key-id-class") {
		case 0: // Id attribute absent
		case 1:
			c.HasKeyID, c.KeyID = true, "_c11-key"
		case 2: // exactly what the URI points at
			c.HasKeyID, c.KeyID = true, strings.TrimPrefix(c.URI, "#")
		default:
			c.HasKeyID, c.KeyID = true, genFragment(t, "key-id", false)
		}
		c.SecondKey = rapid.SampledFrom([]string{"", "", "before", "after"}).Draw(t, "second-key")
	}
	switch c.Kind {
	case "len":
		max := s.IVLen + 4*s.Block + 1
		if s.GCM {
			max = s.IVLen + s.TagLen + 4*s.Block + 1
		}
		n := rapid.IntRange(0, max).Draw(t, "value-len")
		if c.Entry == "decrypt-key" || (c.Transport != "direct" && rapid.IntRange(0, 5).Draw(t, "on-key") == 0) {
			c.OnKey = true
			n = rapid.SampledFrom([]int{0, 1, 16, 127, 128, 255, 256, 257, 512}).Draw(t, "key-value-len")
		}
		c.CipherValue = genBytes(t, n, "value")
	case "pad":
		c.NBlocks = rapid.IntRange(0, 5).Draw(t, "nblocks")
		switch rapid.IntRange(0, 3).Draw(t, "last-class") {
		case 0:
			c.Last = 0
		case 1:
			c.Last = rapid.IntRange(1, s.Block).Draw(t, "last")
		case 2:
			c.Last = c.NBlocks*s.Block + rapid.IntRange(-1, 1).Draw(t, "d")
			if c.Last < 0 {
				c.Last = 0
			}
			if c.Last > 255 {
				c.Last = 255
			}
		default:
			c.Last = rapid.IntRange(0, 255).Draw(t, "last")
		}
	case "gcm":
		c.GCMOp = rapid.SampledFrom([]string{"flip", "flip", "flip", "truncate", "extend", "dropnonce", "zerotag"}).Draw(t, "gcm-op")
		c.GCMPos = rapid.IntRange(0, 4000).Draw(t, "gcm-pos")
	case "cert":
		c.Cert = rapid.SampledFrom([]string{"match", "match-wrapped", "sp2", "attacker", "rsa1024", "ec", "garbage", "empty", "notb64", "truncated"}).Draw(t, "cert")
		c.CertSib = rapid.SampledFrom(append([]string{"", "", ""}, certSibs...)).Draw(t, "certsib")
		if c.Entry != "sp" && rapid.Bool().Draw(t, "rsa-key") {
			c.KeyKind = rapid.SampledFrom([]string{"rsa-ptr", "rsa-other"}).Draw(t, "rsa-kind")
		}
	case "mut":
		n := rapid.IntRange(1, 4).Draw(t, "nmuts")
		for i := 0; i < n; i++ {
			c.Muts = append(c.Muts, genMut(t, i))
		}
	}
	if c.Transport != "direct" && rapid.IntRange(0, 5).Draw(t, "wrapped-key-variant") == 0 {
		// a wrapped key of another size than the data algorithm needs (8 = the pinned package's 3DES size)
		c.HasWrappedKey = true
		n := rapid.SampledFrom([]int{0, 1, 8, 15, 16, 17, 24, 32, 33, 40}).Draw(t, "wrapped-len")
		c.WrappedKey = genBytes(t, n, "wrapped")
	}
	return c
}

// ---------------------------------------------------------------- exhaustive enumerations

func baseCase(kind, entry, block, transport, digest string, id string) Case {
	s := spec(block)
	seed := []byte(id)
	return Case{Kind: kind, Entry: entry, Block: block, Transport: transport, Digest: digest,
		Key: expand(seed, "key", s.KeyLen), IV: expand(seed, "iv", s.IVLen), Filler: expand(seed, "filler", s.Block-1),
		Seed: expand(seed, "seed", 6), PlainKind: "assertion", Reparse: true, SPKey: "sp"}
}

// spellAt cycles deterministically through the nine namespace spellings.
func spellAt(i int) (string, string) {
	sp := []string{"", "other", "default"}
	return sp[i%3], sp[(i/3)%3]
}

func maxValueLen(s refenc.BlockSpec) int {
	if s.GCM {
		return s.IVLen + s.TagLen + 4*s.Block + 1
	}
	return s.IVLen + 4*s.Block + 1
}

// every cipher-value length x every key type, direct-key EncryptedData
func enumLenKeyTypes(_ string, emit func(Case)) {
	for _, b := range blocks {
		s := spec(b)
		for n := 0; n <= maxValueLen(s); n++ {
			id := fmt.Sprintf("lenkey/%s/%d", b, n)
			mk := func(kind string, kb []byte) {
				c := baseCase("len", "decrypt", b, "direct", "", id)
				c.CipherValue = expand([]byte(id), "value", n)
				c.KeyKind, c.KeyBytes = kind, kb
				emit(c)
			}
			mk("content", nil)
			for kl := 0; kl <= 40; kl++ {
				mk("bytes", expand([]byte(id), "kb", kl))
			}
			for _, k := range []string{"rsa-ptr", "rsa-val", "ecdsa", "nil"} {
				mk(k, nil)
			}
			mk("string", expand([]byte(id), "kb", s.KeyLen))
			mk("int", expand([]byte(id), "kb", s.KeyLen))
		}
	}
}

// every cipher-value length behind an RSA-wrapped key, through Decrypt and through the SP (both layouts)
func enumLenRSA(_ string, emit func(Case)) {
	for _, b := range blocks {
		s := spec(b)
		wrapLens := []int{-1}
		if b == "tripledes-cbc" {
			wrapLens = []int{-1, 8} // 8 = the key size the pinned package believes in
		}
		for _, tr := range []tcombo{{"oaep-mgf1p", "sha1"}, {"pkcs1", ""}} {
			for _, wl := range wrapLens {
				for n := 0; n <= maxValueLen(s); n++ {
					id := fmt.Sprintf("lenrsa/%s/%s/%d/%d", b, tr.transport, wl, n)
					for _, variant := range []string{"decrypt", "sp-nested", "sp-sibling"} {
						if variant != "decrypt" && tr.transport == "pkcs1" && n%3 != 0 {
							continue // thin out the slower SP path for the second transport
						}
						c := baseCase("len", "decrypt", b, tr.transport, tr.digest, id)
						c.CipherValue = expand([]byte(id), "value", n)
						c.KeyKind = "rsa-ptr"
						if wl >= 0 {
							c.HasWrappedKey, c.WrappedKey = true, expand([]byte(id), "wk", wl)
						}
						switch variant {
						case "sp-nested":
							c.Entry = "sp"
						case "sp-sibling":
							c.Entry, c.Sibling = "sp", true
						}
						emit(c)
					}
				}
			}
		}
	}
}

// every final octet value x 0..4 blocks, CBC algorithms, right key
func enumPad(_ string, emit func(Case)) {
	for _, b := range blocks[:4] {
		for nb := 0; nb <= 4; nb++ {
			for last := 0; last <= 255; last++ {
				if nb == 0 && last > 0 {
					continue
				}
				c := baseCase("pad", "decrypt", b, "direct", "", fmt.Sprintf("pad/%s/%d/%d", b, nb, last))
				c.NBlocks, c.Last, c.KeyKind = nb, last, "content"
				emit(c)
			}
		}
	}
}

// every single-bit flip, every truncation and some extensions of short GCM messages
func enumGCM(_ string, emit func(Case)) {
	for _, pl := range []int{0, 1, 15, 16, 17, 33} {
		id := fmt.Sprintf("gcm/%d", pl)
		total := 12 + pl + 16
		mk := func(op string, pos int) {
			c := baseCase("gcm", "decrypt", "aes128-gcm", "direct", "", id)
			c.PlainKind, c.Plain = "bytes", expand([]byte(id), "plain", pl)
			c.GCMOp, c.GCMPos, c.KeyKind = op, pos, "content"
			emit(c)
		}
		for p := 0; p < total*8; p++ {
			mk("flip", p)
		}
		for p := 0; p < total; p++ {
			mk("truncate", p)
		}
		for p := 0; p < 17; p++ {
			mk("extend", p)
		}
		mk("dropnonce", 0)
		mk("zerotag", 0)
	}
}

var certSibs = []string{"issuerserial-before", "issuerserial-after", "ski-before", "ski-after", "subjectname-before", "secondcert-match-after"}

// embedded certificate variants x transports x supplied key x entry
func enumCert(_ string, emit func(Case)) {
	for _, cert := range []string{"match", "sp2", "attacker", "ec"} {
		for _, sib := range certSibs {
			for _, variant := range []string{"decrypt/rsa-ptr", "decrypt/rsa-other", "decrypt-key/rsa-ptr", "sp/nested"} {
				c := baseCase("cert", "decrypt", "aes128-cbc", "oaep-mgf1p", "sha1", fmt.Sprintf("certsib/%s/%s", cert, sib))
				c.Cert, c.CertSib = cert, sib
				p := strings.Split(variant, "/")
				c.Entry = p[0]
				if p[0] != "sp" {
					c.KeyKind = p[1]
				}
				emit(c)
			}
		}
	}
	// the verdict must not depend on how the document spells the namespaces
	for _, cert := range []string{"match", "sp2", "attacker", "ec"} {
		for _, xp := range []string{"", "other", "default"} {
			for _, dp := range []string{"", "other", "default"} {
				if xp == "" && dp == "" {
					continue
				}
				for _, variant := range []string{"decrypt/rsa-ptr", "decrypt/rsa-other", "decrypt-key/rsa-ptr", "sp/nested", "sp/sibling"} {
					c := baseCase("cert", "decrypt", "aes128-cbc", []string{"oaep-mgf1p", "pkcs1"}[len(dp)%2], []string{"sha1", ""}[len(dp)%2], fmt.Sprintf("certspell/%s/%s/%s", cert, xp, dp))
					c.Cert, c.XencPrefix, c.DsPrefix = cert, xp, dp
					p := strings.Split(variant, "/")
					c.Entry = p[0]
					if p[0] == "sp" {
						c.Sibling = p[1] == "sibling"
					} else {
						c.KeyKind = p[1]
					}
					emit(c)
				}
			}
		}
	}
	for _, cert := range []string{"match", "match-wrapped", "sp2", "attacker", "rsa1024", "ec", "garbage", "empty", "notb64", "truncated"} {
		for _, tr := range []tcombo{{"oaep-mgf1p", "sha1"}, {"oaep-mgf1p", "sha256"}, {"pkcs1", ""}} {
			for _, b := range []string{"aes128-cbc", "aes128-gcm"} {
				id := fmt.Sprintf("cert/%s/%s/%s/%s", cert, tr.transport, tr.digest, b)
				for _, variant := range []string{"decrypt/rsa-ptr", "decrypt/rsa-other", "decrypt-key/rsa-ptr", "decrypt-key/rsa-other", "sp/nested", "sp/sibling"} {
					c := baseCase("cert", "decrypt", b, tr.transport, tr.digest, id)
					c.Cert = cert
					p := strings.Split(variant, "/")
					c.Entry = p[0]
					if p[0] == "sp" {
						c.Sibling = p[1] == "sibling"
					} else {
						c.KeyKind = p[1]
					}
					emit(c)
				}
			}
		}
	}
}

// well-formed ciphertexts of attacker-chosen plaintext shapes through the SP
func enumPlainSP(_ string, emit func(Case)) {
	for _, pk := range plainKinds {
		for _, b := range blocks {
			for _, tr := range []tcombo{{"oaep-mgf1p", "sha1"}, {"pkcs1", ""}} {
				for _, sib := range []bool{false, true} {
					c := baseCase("plain", "sp", b, tr.transport, tr.digest, fmt.Sprintf("plain/%s/%s/%s/%v", pk, b, tr.transport, sib))
					c.PlainKind, c.Sibling = pk, sib
					c.XencPrefix, c.DsPrefix = spellAt(len(pk) + len(b) + len(tr.transport))
					if pk == "bytes" {
						c.Plain = []byte{0, 1, 2, 0xff, '<'}
					}
					emit(c)
				}
			}
		}
	}
}

// every RetrievalMethod URI of the pool x Id of the EncryptedKey {fixed, exactly the fragment, absent}
// x layout x one or two recipients, through the SP; the nested layout also through Decrypt
func enumRetrieval(_ string, emit func(Case)) {
	i := 0
	for _, uri := range retrievalURIs {
		for _, idv := range []string{"fixed", "match", "absent"} {
			for _, sib := range []bool{false, true} {
				for _, second := range []string{"", "before"} {
					c := baseCase("retr", "sp", []string{"aes128-cbc", "aes128-gcm"}[i%2], "oaep-mgf1p", "sha1", fmt.Sprintf("retr/%d", i))
					c.URI, c.HasURI, c.Sibling, c.SecondKey = uri, true, sib, second
					c.XencPrefix, c.DsPrefix = spellAt(i)
					c.SPAllowIDPInitiated = i%3 == 0
					switch idv {
					case "fixed":
						c.HasKeyID, c.KeyID = true, "_c11-key"
					case "match":
						c.HasKeyID, c.KeyID = true, strings.TrimPrefix(uri, "#")
					}
					i++
					emit(c)
					if !sib && second == "" {
						d := c
						d.Entry, d.KeyKind = "decrypt", "rsa-ptr"
						emit(d)
					}
				}
			}
		}
	}
	// hostile Id values without any RetrievalMethod
	for _, id := range keyIDPool() {
		for _, sib := range []bool{false, true} {
			c := baseCase("retr", "sp", "aes128-cbc", "pkcs1", "", "retr-id/"+id)
			c.HasKeyID, c.KeyID, c.Sibling = true, id, sib
			emit(c)
		}
	}
}

// several sibling EncryptedKey elements with ReferenceList/DataReference children x Id of the EncryptedData
func enumRefs(_ string, emit func(Case)) {
	i := 0
	mk := func(entry string, sib bool, second, r1, r2, idm string) {
		c := baseCase("refs", entry, []string{"aes128-cbc", "aes128-gcm"}[i%2], []string{"oaep-mgf1p", "pkcs1"}[(i/2)%2], []string{"sha1", ""}[(i/2)%2], fmt.Sprintf("refs/%d", i))
		c.Sibling, c.SecondKey, c.RefList, c.SecondRefList, c.DataIDMode = sib, second, r1, r2, idm
		c.SPAllowIDPInitiated = i%3 == 0
		if entry != "sp" {
			c.KeyKind = "rsa-ptr"
		}
		c.XencPrefix, c.DsPrefix = spellAt(i / 5)
		i++
		emit(c)
	}
	for _, idm := range []string{"", "absent", "empty"} {
		for _, r1 := range refListVariants {
			mk("sp", true, "", r1, "", idm)
			mk("sp", false, "", r1, "", idm)
			mk("decrypt", false, "", r1, "", idm)
			mk("decrypt-key", false, "", r1, "", idm)
			for _, second := range []string{"before", "after"} {
				for _, r2 := range refListVariants {
					mk("sp", true, second, r1, r2, idm)
				}
				mk("sp", false, second, r1, "nouri", idm)
			}
		}
	}
}

// a key of a size that is right for another variant of the cipher family, with a cipher value that
// really opens under that other variant: direct []byte keys and RSA-wrapped keys, Decrypt and the SP
func enumKeySizes(_ string, emit func(Case)) {
	i := 0
	for _, declared := range blocks {
		ds := spec(declared)
		fam := []string{"aes128-cbc", "aes192-cbc", "aes256-cbc", "tripledes-cbc"}
		if ds.GCM {
			fam = []string{"aes128-gcm", "aes192-gcm", "aes256-gcm"}
		}
		for _, actual := range fam {
			as, _ := refenc.Spec(actualURI(actual))
			if as.KeyLen == ds.KeyLen {
				continue
			}
			for _, pl := range []int{0, 5, 16, 40} {
				for _, delivery := range []string{"direct", "oaep-decrypt", "pkcs1-decrypt", "oaep-sp-nested", "pkcs1-sp-sibling"} {
					id := fmt.Sprintf("keysize/%s/%s/%d/%s", declared, actual, pl, delivery)
					c := baseCase("keysize", "decrypt", declared, "direct", "", id)
					c.ActualAlg = actual
					c.PlainKind, c.Plain = "bytes", expand([]byte(id), "plain", pl)
					wrong := expand([]byte(id), "wrong", as.KeyLen)
					switch delivery {
					case "direct":
						c.KeyKind, c.KeyBytes = "bytes", wrong
					default:
						if strings.HasPrefix(delivery, "oaep") {
							c.Transport, c.Digest = "oaep-mgf1p", "sha1"
						} else {
							c.Transport = "pkcs1"
						}
						c.HasWrappedKey, c.WrappedKey, c.KeyKind = true, wrong, "rsa-ptr"
						if strings.Contains(delivery, "-sp-") {
							c.Entry, c.KeyKind = "sp", ""
							c.Sibling = strings.HasSuffix(delivery, "sibling")
						}
					}
					c.XencPrefix, c.DsPrefix = spellAt(i)
					i++
					emit(c)
				}
			}
		}
	}
	// and the bare sizes 8/16/24/32 (random cipher value of valid shape) against every declared algorithm
	for _, declared := range blocks {
		ds := spec(declared)
		for _, n := range []int{8, 16, 24, 32} {
			if n == ds.KeyLen {
				continue
			}
			for _, tr := range []tcombo{{"direct", ""}, {"oaep-mgf1p", "sha1"}} {
				id := fmt.Sprintf("keysize-bare/%s/%d/%s", declared, n, tr.transport)
				c := baseCase("len", "decrypt", declared, tr.transport, tr.digest, id)
				c.CipherValue = expand([]byte(id), "value", ds.IVLen+2*ds.Block+ds.TagLen)
				if tr.transport == "direct" {
					c.KeyKind, c.KeyBytes = "bytes", expand([]byte(id), "k", n)
				} else {
					c.KeyKind, c.HasWrappedKey, c.WrappedKey = "rsa-ptr", true, expand([]byte(id), "k", n)
				}
				emit(c)
			}
		}
	}
}

// KeySize texts of every class (and the other optional children) x every block cipher x every key
// transport x EncryptedData / EncryptedKey / both x Decrypt, Decrypt(EncryptedKey) and the SP in both layouts
func enumEMChildren(_ string, emit func(Case)) {
	i := 0
	for _, b := range blocks {
		exact := spec(b).KeyLen * 8
		vals := []string{strconv.Itoa(exact), strconv.Itoa(exact - 8), strconv.Itoa(exact + 8), strconv.Itoa(exact + 1), strconv.Itoa(2 * exact), strconv.Itoa(8 * exact),
			"-1", "-8", "-128", "-" + strconv.Itoa(exact), "0", "1", "7", "8", "64", "128", "168", "192", "256", "512", "4096", "65536", "1000000"}
		vals = append(vals, keySizeHuge...)
		vals = append(vals, keySizeNonNumeric...)
		var lists [][]EMChild
		for _, v := range vals {
			lists = append(lists, []EMChild{{Tag: "keysize", Val: v}})
		}
		ex := strconv.Itoa(exact)
		lists = append(lists,
			[]EMChild{{Tag: "keysize", Val: ex}, {Tag: "keysize", Val: ex}},
			[]EMChild{{Tag: "keysize", Val: ex}, {Tag: "keysize", Val: "4096"}},
			[]EMChild{{Tag: "keysize", Val: "4096", First: true}, {Tag: "keysize", Val: ex}},
			[]EMChild{{Tag: "keysize", Val: "-8"}, {Tag: "keysize", Val: "x"}, {Tag: "keysize", Val: ex}},
			[]EMChild{{Tag: "foreign-keysize", Val: "4096"}},
			[]EMChild{{Tag: "foreign-keysize", Val: "-8", First: true}},
			[]EMChild{{Tag: "keysize", Val: "4096", Form: "cdata"}},
			[]EMChild{{Tag: "keysize", Val: "4096", Form: "split"}},
			[]EMChild{{Tag: "keysize", Val: "4096", Form: "nested"}},
			[]EMChild{{Tag: "keysize", Val: "4096", Form: "attr"}},
			[]EMChild{{Tag: "keysize", Val: ex, Form: "split"}},
			[]EMChild{{Tag: "oaepparams", Val: ""}},
			[]EMChild{{Tag: "oaepparams", Val: "bGFiZWw="}},
			[]EMChild{{Tag: "oaepparams", Val: "!!!", First: true}},
			[]EMChild{{Tag: "oaepparams", Val: "bGFiZWw="}, {Tag: "oaepparams", Val: "AAAA"}},
			[]EMChild{{Tag: "oaepparams", Val: strings.Repeat("QUJD", 100)}, {Tag: "keysize", Val: ex}},
			[]EMChild{{Tag: "digest", Val: refenc.LibDigestSHA256, First: true}},
			[]EMChild{{Tag: "digest", Val: "x"}},
			[]EMChild{{Tag: "mgf", Val: refenc.MGF1SHA1, First: true}},
			[]EMChild{{Tag: "mgf", Val: ""}},
			[]EMChild{{Tag: "unknown", Val: "x", First: true}},
			[]EMChild{{Tag: "unknown", Val: "x"}, {Tag: "unknown", Val: "y"}},
			[]EMChild{{Tag: "text", Val: "128", First: true}},
			[]EMChild{{Tag: "text", Val: " x ", Form: "cdata"}},
			[]EMChild{{Tag: "comment", Val: "KeySize", First: true}, {Tag: "keysize", Val: ex}},
		)
		for li, l := range lists {
			for _, tr := range []tcombo{{"direct", ""}, {"oaep-mgf1p", "sha1"}, {"oaep11", "sha256"}, {"pkcs1", ""}} {
				id := fmt.Sprintf("emchild/%s/%d/%s", b, li, tr.transport)
				mk := func(entry string, sib bool, where string) {
					c := baseCase("emchild", entry, b, tr.transport, tr.digest, id)
					c.Sibling = sib
					if where != "key" {
						c.DataEM = l
					}
					if where != "data" {
						c.KeyEM = l
					}
					switch {
					case entry == "sp":
					case tr.transport == "direct":
						c.KeyKind = "content"
					default:
						c.KeyKind = "rsa-ptr"
					}
					c.XencPrefix, c.DsPrefix = spellAt(i)
					c.Reparse = i%2 == 0
					i++
					emit(c)
				}
				if tr.transport == "direct" {
					mk("decrypt", false, "data")
					continue
				}
				mk("decrypt", false, "data")
				mk("decrypt", false, "key")
				mk("decrypt-key", false, "key")
				if tr.transport == "oaep11" && li%4 != 0 {
					continue // thin out the slower SP path
				}
				mk("sp", false, "data")
				mk("sp", true, "both")
			}
		}
	}
}

// EncryptionMethod / DigestMethod present twice (identical, or a differing copy first)
func enumDupMethods(_ string, emit func(Case)) {
	i := 0
	for _, target := range []string{"data.em", "key.em", "key.dm"} {
		for _, alt := range []string{"=", refenc.AES256CBC, refenc.RSA15, refenc.LibDigestSHA256, refenc.DigestSHA1, "", "x"} {
			for _, tr := range []tcombo{{"oaep-mgf1p", "sha1"}, {"oaep-mgf1p", "sha256"}, {"oaep11", "sha1"}} {
				for _, variant := range []string{"decrypt", "decrypt-key", "sp-nested", "sp-sibling"} {
					c := baseCase("mut", "decrypt", "aes128-cbc", tr.transport, tr.digest, fmt.Sprintf("dupmethod/%d", i))
					i++
					if alt == "=" {
						c.Muts = []Mut{{Op: "dup", Target: target}}
					} else {
						c.Muts = []Mut{{Op: "dupalt", Target: target, Arg: alt}}
					}
					switch variant {
					case "decrypt":
						c.KeyKind = "rsa-ptr"
					case "decrypt-key":
						c.Entry, c.KeyKind = "decrypt-key", "rsa-ptr"
					case "sp-nested":
						c.Entry = "sp"
					case "sp-sibling":
						c.Entry, c.Sibling = "sp", true
					}
					emit(c)
				}
			}
		}
	}
}

// every repository document, unmutated, with every key type
func enumFiles(_ string, emit func(Case)) {
	for _, f := range corpusFiles() {
		for _, k := range keyKinds {
			if k == "content" {
				continue
			}
			c := Case{Kind: "xml", Entry: "decrypt", File: f, KeyKind: k}
			if k == "bytes" || k == "string" || k == "int" {
				for _, n := range []int{0, 8, 16, 24, 32} {
					cc := c
					cc.KeyBytes = bytes.Repeat([]byte{'k'}, n)
					emit(cc)
				}
				continue
			}
			emit(c)
		}
	}
}

var prop = &pbt.Prop[Case]{
	ID: "C11",
	Rule: "cases: reference-built EncryptedData/EncryptedKey trees (5 block ciphers x direct / rsa-oaep-mgf1p / xmlenc11 rsa-oaep / PKCS#1 key transport, nested or sibling key) damaged by one of {replaced cipher value of chosen length, CBC value with chosen final decrypted octet, modified GCM value, embedded-certificate variant, attacker-chosen plaintext shape, ds:RetrievalMethod with benign and hostile URIs (quotes, brackets, path and query metacharacters) x namespace spelling of the document (xenc:/ds:, other prefixes, default namespace, independently for xmlenc and xmldsig) x several sibling EncryptedKeys with ReferenceList/DataReference (URI absent / empty / # / matching / other) x EncryptedData Id (present / absent / empty), keys of a size valid for another variant with ciphertexts that open under that variant, optional / unexpected content of EncryptionMethod on the EncryptedData and / or the EncryptedKey (xenc:KeySize whose text is negative / 0 / smaller / exactly the key size in bits / larger / huge / non-numeric / empty, carried as text, CDATA, split by a comment, in a nested element or in an attribute, the same local name in a foreign namespace, xenc:OAEPparams, further DigestMethod / MGF, unknown children, text, comments, each possibly repeated, before or after the existing children; alone as kind emchild and in one of five cases of every other kind), x EncryptedKey Id attributes (fixed / exactly the fragment / hostile / absent) x one or two recipients' keys, 1-4 structural mutations (remove/duplicate/nest/rename elements, added RetrievalMethod / Id attributes / second EncryptedKey, Algorithm attribute edits, bad base64, comments/CDATA/children inside CipherValue, chains of nested EncryptedKey, moved keys), byte mutations of repository corpus documents and of generated documents}, presented to xmlenc.Decrypt with keys of every Go type ([]byte of 0..40 octets, *rsa.PrivateKey, rsa.PrivateKey, *ecdsa.PrivateKey, string, int, nil) and to ServiceProvider.ParseXMLResponse inside an unsigned Response. " +
		"non-trivial: the element handed over still reaches a registered decrypter (EncryptionMethod/@Algorithm registered, CipherData/CipherValue present) and the case is not an unmodified control. distinct: sha256 of the JSON case.",
	Gen:   gen,
	Check: check,
	Reset: fix.Reset,
	Enums: []pbt.Enum[Case]{
		{Name: "cipher-value-length-0..4blocks+1-x-key-types", Each: enumLenKeyTypes},
		{Name: "cipher-value-length-0..4blocks+1-rsa-wrapped-and-sp", Each: enumLenRSA},
		{Name: "cbc-final-octet-0..255-x-0..4-blocks", Each: enumPad},
		{Name: "gcm-every-bitflip-and-truncation", Each: enumGCM},
		{Name: "embedded-certificate-variants", Each: enumCert},
		{Name: "plaintext-shapes-through-sp", Each: enumPlainSP},
		{Name: "retrieval-method-uris-x-key-ids-x-layouts", Each: enumRetrieval},
		{Name: "sibling-keys-x-datareference-uris-x-data-id", Each: enumRefs},
		{Name: "key-sizes-of-another-variant", Each: enumKeySizes},
		{Name: "duplicated-encryptionmethod-digestmethod", Each: enumDupMethods},
		{Name: "encryptionmethod-keysize-and-optional-children-x-ciphers-x-transports", Each: enumEMChildren},
		{Name: "repository-documents-x-key-types", Each: enumFiles},
	},
	Assumptions: []string{
		"typed-nil pointers as keys or elements are outside the domain (DESIGN 2.6); untyped nil is inside",
		"acceptance of a well-formed ciphertext is not judged here (C10 does); only: no panic, the must-reject classes, and 'returned plaintext equals the reference plaintext'",
		"CBC values whose final octet lies between block size + 1 and the decrypted length are don't-care (W3C forbids them, the package tolerates them)",
		"the certificate/key consistency rule is judged only for a certificate at EncryptedKey/KeyInfo/X509Data/X509Certificate and a *rsa.PrivateKey key; it is judged whatever prefix (or default namespace) the document binds to xmldsig / xmlenc",
		"through the SP entry every case must end in an error because nothing in it is signed (with AllowIDPInitiated on or off, RSA or EC SP key)",
		"a key ([]byte handed over directly, or unwrapped from an intact EncryptedKey) whose size differs from the size the DECLARED block algorithm prescribes must be rejected, in particular 16/24/32 (8/24 for 3DES) octets that would be right for another variant; keys of a wrong Go type are judged for totality only",
		"content of EncryptionMethod other than the Algorithm attribute is judged for totality on every input; the must-reject classes and the reference-plaintext comparison are applied unchanged when no KeySize is present or every KeySize of EncryptedData/EncryptionMethod is literally the declared algorithm's key size in bits (128/192/256; 192 for 3DES), and are don't-care for any other KeySize text, for a KeySize in a foreign namespace with another value and for any KeySize on the EncryptedKey's EncryptionMethod (through the SP entry everything must still end in an error)",
		"which EncryptedKey a RetrievalMethod or a ReferenceList/DataReference selects is not judged (the property is silent); only totality and the must-reject classes are",
		"corpus documents are read from <repo>/xmlenc/{corpus,testdata}/*.xml at run time",
	},
}

func TestCheck(t *testing.T) { pbt.Run(t, prop) }

// FuzzCheck drives the same generator and oracle from Go's coverage-guided fuzzer.
// rapid reads the fuzz input as its bit stream and discards inputs that run dry, so
// a few long deterministic seeds are added to let mutation start from usable inputs.
func FuzzCheck(f *testing.F) {
	for i := 0; i < 16; i++ {
		f.Add(expand([]byte{byte(i)}, "fuzz-seed", 2048+512*i))
	}
	pbt.Fuzz(f, prop)
}
