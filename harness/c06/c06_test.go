// Package c06: every response the IdP emits is signed and scoped to one SP, request and moment.
package c06

import (
	"crypto/rsa"
	"encoding/base64"
	"fmt"
	"net/http/httptest"
	"os"
	"regexp"
	"runtime/debug"
	"strconv"
	"strings"
	"testing"
	"time"

	"github.com/beevik/etree"
	"github.com/crewjam/saml"
	"pgregory.net/rapid"

	"verif/harness/internal/fix"
	"verif/harness/internal/idpkit"
	"verif/harness/internal/idpkit/xmlw"
	"verif/harness/internal/pbt"
	"verif/harness/internal/refenc"
	"verif/harness/internal/xgen"
)

// EP is one registered ACS endpoint.
type EP struct {
	Binding  string `json:"binding"`
	Location string `json:"location"`
	Index    int    `json:"index"`
	Default  *bool  `json:"is_default,omitempty"`
	// Response is the optional ResponseLocation attribute; an ACS response never goes there.
	Response *string `json:"response_location,omitempty"`
}

// ReqAttr is one RequestedAttribute of an AttributeConsumingService.
type ReqAttr struct {
	Name         string `json:"name"`
	FriendlyName string `json:"friendly_name,omitempty"`
	NameFormat   string `json:"name_format,omitempty"`
	// Values are AttributeValue children of the RequestedAttribute ("values of interest" of the SP):
	// metadata content, never a value of the authenticated session.
	Values []string `json:"values,omitempty"`
}

// AttrSvc is one AttributeConsumingService.
type AttrSvc struct {
	Default *bool     `json:"is_default,omitempty"`
	Attrs   []ReqAttr `json:"attrs"`
}

// SPMeta is the registered service provider.
type SPMeta struct {
	EntityID string    `json:"entity_id"`
	Descs    [][]EP    `json:"descs"`
	Services []AttrSvc `json:"services,omitempty"` // on every descriptor
	// KeyUse: "" no key descriptor | encryption | unspecified (use omitted) | signing | both
	KeyUse  string `json:"key_use,omitempty"`
	KeyName string `json:"key_name,omitempty"` // sp | sp2
	ViaXML  bool   `json:"via_xml,omitempty"`
}

// Case is two consecutive requests (or launches) served by one IdP for two sessions.
type Case struct {
	IDP     idpkit.IDPConf `json:"idp"`
	SkewMs  int64          `json:"skew_ms"`
	DelayMs int64          `json:"delay_ms"`
	SP      SPMeta         `json:"sp"`
	// SPThen, when set, replaces the registration (same entity ID, same registry value, same IdentityProvider
	// value) between the first and the second response; the second is judged against SPThen.
	SPThen *SPMeta `json:"sp_then,omitempty"`
	// IDPThen, when set, re-configures the public fields of the SAME IdentityProvider value (signature method,
	// Key / Signer, certificate, intermediates, URLs, ValidDuration, template ...) before the second response,
	// which is judged against IDPThen; a third response follows after switching back to IDP.
	IDPThen *idpkit.IDPConf `json:"idp_then,omitempty"`

	Initiated bool   `json:"initiated,omitempty"`
	Method    string `json:"method,omitempty"`
	// ClockMs = IdP clock minus the request's IssueInstant.
	ClockMs  int64   `json:"clock_ms"`
	ReqID    string  `json:"req_id,omitempty"`
	ACSURL   *string `json:"acs_url,omitempty"`
	ACSIndex *string `json:"acs_index,omitempty"`
	Dest     bool    `json:"dest,omitempty"`
	Relay    string  `json:"relay,omitempty"`
	// Opt is the optional content of the AuthnRequest (Subject/NameID, NameIDPolicy, Extensions, Conditions,
	// RequestedAuthnContext, Scoping, ProviderName ...): all of it is chosen by the requester, none of it
	// is part of the authenticated session.
	Opt idpkit.ReqOptional `json:"req_optional"`

	Sessions [2]idpkit.Sess `json:"sessions"`
	Markers  [2]string      `json:"markers"`
	// CreatedAgoMs / ExpiresInMs place each session's CreateTime before and ExpireTime after the IdP clock
	// (0 = one minute ago / in one hour, what older saved cases meant).
	CreatedAgoMs [2]int64 `json:"created_ago_ms,omitempty"`
	ExpiresInMs  [2]int64 `json:"expires_in_ms,omitempty"`
}

func (c Case) created(i int, now time.Time) time.Time {
	if c.CreatedAgoMs[i] == 0 {
		return now.Add(-time.Minute)
	}
	return now.Add(-time.Duration(c.CreatedAgoMs[i]) * time.Millisecond)
}

func (c Case) session(i int, now time.Time) *saml.Session {
	s := c.Sessions[i].Session(c.created(i, now))
	if c.ExpiresInMs[i] != 0 {
		s.ExpireTime = now.Add(time.Duration(c.ExpiresInMs[i]) * time.Millisecond)
	}
	return s
}

const post = saml.HTTPPostBinding

func excluded(slug string) bool { return os.Getenv("VERIF_EXCLUDE_"+slug) == "1" }

// ---------------------------------------------------------------- generator

func marked(t *rapid.T, marker, label string) string {
	s := xgen.Text().Draw(t, label)
	if excluded("CR") {
		s = strings.ReplaceAll(s, "\r", "")
	}
	switch rapid.IntRange(0, 2).Draw(t, label+"@") {
	case 0:
		return marker + s
	case 1:
		return s + marker
	default:
		h := len(s) / 2
		for h > 0 && h < len(s) && s[h]&0xC0 == 0x80 {
			h--
		}
		return s[:h] + marker + s[h:]
	}
}

func genSession(t *rapid.T, marker string) idpkit.Sess {
	// every field has a value of its own; the ID is the IdP's internal session handle (a cookie value in samlidp)
	s := idpkit.Sess{ID: "sessionhandle0" + marker + rapid.StringMatching(`[a-z0-9]{4}`).Draw(t, "session-id"), Index: "idx-" + marker, NameID: marked(t, marker, "nameid")}
	if rapid.IntRange(0, 4).Draw(t, "nameid-empty") == 0 {
		// a session provider may fill only the user attributes
		s.NameID = ""
	}
	s.NameIDFormat = rapid.SampledFrom([]string{"", string(saml.EmailAddressNameIDFormat), string(saml.PersistentNameIDFormat), string(saml.UnspecifiedNameIDFormat)}).Draw(t, "nameid-format")
	opt := func(label string) string {
		if rapid.IntRange(0, 2).Draw(t, label+"?") == 0 {
			return ""
		}
		return marked(t, marker, label)
	}
	s.UserName, s.Email, s.CommonName, s.Surname, s.GivenName = opt("username"), opt("email"), opt("cn"), opt("sn"), opt("givenname")
	s.Affiliation, s.EPPN, s.SubjectID = opt("affiliation"), opt("eppn"), opt("subject-id")
	ng := rapid.IntRange(0, 3).Draw(t, "ngroups")
	for i := 0; i < ng; i++ {
		s.Groups = append(s.Groups, marked(t, marker, "group"))
	}
	nc := rapid.IntRange(0, 2).Draw(t, "ncustom")
	for i := 0; i < nc; i++ {
		a := idpkit.Attr{Name: "urn:custom:" + strconv.Itoa(i), FriendlyName: "custom" + strconv.Itoa(i),
			NameFormat: rapid.SampledFrom([]string{"", "urn:oasis:names:tc:SAML:2.0:attrname-format:uri", "urn:oasis:names:tc:SAML:2.0:attrname-format:basic"}).Draw(t, "nameformat")}
		nv := rapid.IntRange(0, 3).Draw(t, "nvalues")
		for j := 0; j < nv; j++ {
			a.Values = append(a.Values, marked(t, marker, "custom-value"))
		}
		s.Custom = append(s.Custom, a)
	}
	return s
}

var requestable = []string{"email", "e-mail", "EmailAddress", "emailaddress", "name", "cn", "common name", "givenname", "first_name", "surname", "familyname", "uid", "user", "userid", "groups", "phone", ""}

// reqMarker is contained in every identity-like value that only the AuthnRequest carries.
const reqMarker = "qx0request"

func genOptional(t *rapid.T, other idpkit.Sess) idpkit.ReqOptional {
	var o idpkit.ReqOptional
	has := func(label string, oneIn int) bool { return rapid.IntRange(0, oneIn-1).Draw(t, label+"?") == 0 }
	if has("subject", 2) {
		o.SubjectNameID = idpkit.P(rapid.SampledFrom([]string{reqMarker + "-ceo@victim.example.com", reqMarker, reqMarker + " <&> \"x\"", " " + reqMarker + "\t"}).Draw(t, "subject-nameid"))
		o.SubjectFormat = rapid.SampledFrom([]string{"", string(saml.EmailAddressNameIDFormat), string(saml.PersistentNameIDFormat)}).Draw(t, "subject-format")
		o.SubjectConfirmation = rapid.Bool().Draw(t, "subject-confirmation")
	}
	if has("extensions", 4) {
		o.Extensions = idpkit.P(reqMarker + "-extension")
	}
	if has("policy", 2) {
		if has("policy-format", 2) {
			o.PolicyFormat = idpkit.P(rapid.SampledFrom([]string{string(saml.EmailAddressNameIDFormat), string(saml.PersistentNameIDFormat), string(saml.TransientNameIDFormat), string(saml.UnspecifiedNameIDFormat), ""}).Draw(t, "policy-format"))
		}
		if has("policy-spnq", 2) {
			o.PolicySPNameQual = idpkit.P(rapid.SampledFrom([]string{"https://other-sp.example.org/metadata", "urn:example:sp", ""}).Draw(t, "policy-spnq"))
		}
		o.PolicyAllowCreate = idpkit.P(rapid.SampledFrom([]string{"true", "false", "1", "0"}).Draw(t, "policy-allow-create"))
	}
	if has("conditions", 4) {
		o.ConditionsAudience = idpkit.P("https://" + reqMarker + ".example.net/audience")
	}
	if has("authn-context", 4) {
		o.AuthnContextClass = idpkit.P(rapid.SampledFrom([]string{"urn:oasis:names:tc:SAML:2.0:ac:classes:Password", "urn:oasis:names:tc:SAML:2.0:ac:classes:X509"}).Draw(t, "authn-context"))
	}
	if has("scoping", 4) {
		o.RequesterID = idpkit.P("https://" + reqMarker + ".example.net/requester")
	}
	if has("provider-name", 4) {
		o.ProviderName = idpkit.P(reqMarker + " portal")
	}
	if has("attr-svc-index", 4) {
		o.AttrSvcIndex = idpkit.P(rapid.SampledFrom([]string{"0", "1", "7"}).Draw(t, "attr-svc-index"))
	}
	if has("force-authn", 4) {
		o.ForceAuthn = idpkit.P(rapid.SampledFrom([]string{"true", "false"}).Draw(t, "force-authn"))
	}
	if has("is-passive", 6) {
		o.IsPassive = idpkit.P(rapid.SampledFrom([]string{"true", "false"}).Draw(t, "is-passive"))
	}
	if has("consent", 6) {
		o.Consent = idpkit.P("urn:oasis:names:tc:SAML:2.0:consent:obtained")
	}
	_ = other
	return o
}

// metaMarker is contained in every value that only the SP's metadata carries.
const metaMarker = "qm0metadata"

func genDescs(t *rapid.T, pool []string) [][]EP {
	var out [][]EP
	nd := rapid.SampledFrom([]int{1, 1, 1, 2}).Draw(t, "ndescs")
	idx := rapid.SampledFrom([]int{0, 0, 1, 7}).Draw(t, "first-index")
	for d := 0; d < nd; d++ {
		ne := rapid.IntRange(1, 3).Draw(t, "nendpoints")
		var eps []EP
		for k := 0; k < ne; k++ {
			e := EP{Binding: rapid.SampledFrom([]string{post, post, post, post, saml.HTTPRedirectBinding, saml.HTTPArtifactBinding}).Draw(t, "binding"),
				Location: rapid.SampledFrom(pool).Draw(t, "location"), Index: idx}
			idx++
			switch rapid.IntRange(0, 4).Draw(t, "isDefault") {
			case 0:
				b := true
				e.Default = &b
			case 1:
				b := false
				e.Default = &b
			}
			if rapid.IntRange(0, 2).Draw(t, "responseLocation") == 0 {
				e.Response = idpkit.P(rapid.SampledFrom(append([]string{"https://status.example.net/saml/return"}, pool...)).Draw(t, "response-location"))
			}
			eps = append(eps, e)
		}
		out = append(out, eps)
	}
	return out
}

func genServices(t *rapid.T) []AttrSvc {
	var out []AttrSvc
	ns := rapid.SampledFrom([]int{0, 0, 1, 2}).Draw(t, "nservices")
	for i := 0; i < ns; i++ {
		svc := AttrSvc{}
		if rapid.Bool().Draw(t, "svc-default?") {
			b := rapid.Bool().Draw(t, "svc-default")
			svc.Default = &b
		}
		na := rapid.IntRange(0, 4).Draw(t, "nreqattrs")
		for k := 0; k < na; k++ {
			a := ReqAttr{
				Name:         rapid.SampledFrom(requestable).Draw(t, "reqattr"),
				FriendlyName: rapid.SampledFrom([]string{"", "fn"}).Draw(t, "reqattr-friendly"),
				NameFormat: rapid.SampledFrom([]string{"urn:oasis:names:tc:SAML:2.0:attrname-format:basic", "urn:oasis:names:tc:SAML:2.0:attrname-format:unspecified",
					"urn:oasis:names:tc:SAML:2.0:attrname-format:uri", ""}).Draw(t, "reqattr-format"),
			}
			for v := rapid.SampledFrom([]int{0, 0, 1, 2}).Draw(t, "reqattr-nvalues"); v > 0; v-- {
				a.Values = append(a.Values, metaMarker+"-"+rapid.SampledFrom([]string{"admin@sp.example.com", "root", "operator", "", "staff"}).Draw(t, "reqattr-value"))
			}
			svc.Attrs = append(svc.Attrs, a)
		}
		out = append(out, svc)
	}
	return out
}

func gen(t *rapid.T) Case {
	c := Case{}
	c.IDP = idpkit.IDPConf{
		Base:          rapid.SampledFrom([]string{"https://idp.example.com", "https://idp.example.com:8443/auth"}).Draw(t, "base"),
		MetaSuffix:    rapid.SampledFrom([]string{"", "", "", "?tenant=acme", "?a=1&b=2", "#idp", "?t=1#x"}).Draw(t, "metasuffix"),
		Signer:        rapid.Bool().Draw(t, "signer"),
		StaleKey:      rapid.IntRange(0, 2).Draw(t, "stalekey") == 0,
		SigMethod:     rapid.SampledFrom(idpkit.RSAMethods).Draw(t, "sigmethod"),
		Intermediates: rapid.SampledFrom([]int{0, 0, 1, 2}).Draw(t, "intermediates"),
	}.WithExtras(rapid.Bool().Draw(t, "logoutURL"), rapid.Bool().Draw(t, "loginURL"), rapid.SampledFrom([]int{0, 0, 1, 8760}).Draw(t, "validHours"),
		rapid.IntRange(0, 2).Draw(t, "template") == 0, rapid.IntRange(0, 2).Draw(t, "maker") == 0)
	tol := rapid.SampledFrom([][2]int64{{180000, 90000}, {180000, 90000}, {180000, 3600000}, {0, 1000}, {1000, 0}, {60000, 600000}, {1, 1}}).Draw(t, "tolerances")
	c.SkewMs, c.DelayMs = tol[0], tol[1]

	pool := []string{"https://sp.example.com/saml/acs", "https://sp.example.com/saml/acs/b", "https://sp.example.com/saml/acs?x=1&y=2", "https://other.example.org/acs"}
	c.SP = SPMeta{EntityID: rapid.SampledFrom([]string{"https://sp.example.com/saml/metadata", "urn:example:sp", "https://sp.example.com/md?a=1&b=2"}).Draw(t, "entity"),
		ViaXML: rapid.Bool().Draw(t, "viaXML")}
	c.SP.Descs = genDescs(t, pool)
	c.SP.Services = genServices(t)
	c.SP.KeyUse = rapid.SampledFrom([]string{"", "", "encryption", "encryption", "unspecified", "signing", "both"}).Draw(t, "keyuse")
	c.SP.KeyName = rapid.SampledFrom([]string{"sp", "sp2"}).Draw(t, "keyname")

	c.Initiated = rapid.IntRange(0, 4).Draw(t, "initiated") == 0
	c.Relay = rapid.SampledFrom([]string{"", "rs-1", "a b&c=d+e\"<>"}).Draw(t, "relay")
	var posts, all []EP
	for _, d := range c.SP.Descs {
		for _, e := range d {
			all = append(all, e)
			if e.Binding == post {
				posts = append(posts, e)
			}
		}
	}
	if !c.Initiated {
		c.Method = rapid.SampledFrom([]string{"GET", "POST"}).Draw(t, "method")
		c.ReqID = "id-" + rapid.StringMatching(`[a-f0-9]{16}`).Draw(t, "reqid")
		c.Dest = rapid.Bool().Draw(t, "dest")
		// aim at HTTP-POST endpoints most of the time (the only ones that can be answered)
		aim := all
		if len(posts) > 0 && rapid.IntRange(0, 5).Draw(t, "aim-post") != 0 {
			aim = posts
		}
		switch rapid.IntRange(0, 5).Draw(t, "acs") {
		case 0:
		case 1, 2:
			c.ACSURL = idpkit.P(rapid.SampledFrom(aim).Draw(t, "acs-url").Location)
		case 3:
			c.ACSIndex = idpkit.P(strconv.Itoa(rapid.SampledFrom(aim).Draw(t, "acs-index").Index))
		default:
			// index of one endpoint, URL of (possibly) another: the index wins
			c.ACSIndex = idpkit.P(strconv.Itoa(rapid.SampledFrom(aim).Draw(t, "acs-index").Index))
			c.ACSURL = idpkit.P(rapid.SampledFrom(append([]string{"https://evil.example.net/acs"}, pool...)).Draw(t, "acs-url-other"))
		}
		// clock relative to the request's IssueInstant; must stay fresh (age <= delay) to be answered
		switch rapid.IntRange(0, 5).Draw(t, "clock") {
		case 0:
			c.ClockMs = -rapid.Int64Range(1, 600000).Draw(t, "before")
		case 1:
			c.ClockMs = 0
		case 2:
			c.ClockMs = min64(c.DelayMs, rapid.Int64Range(0, max64(c.SkewMs, 1)).Draw(t, "within-skew"))
		case 3:
			c.ClockMs = max64(0, min64(c.DelayMs, c.SkewMs)-1)
		case 4:
			c.ClockMs = max64(0, c.DelayMs-1)
		default:
			c.ClockMs = rapid.Int64Range(0, max64(c.DelayMs-1, 0)).Draw(t, "age")
		}
	}
	if rapid.IntRange(0, 2).Draw(t, "idp-reconfigure") == 0 {
		then := idpkit.IDPConf{
			Base:          rapid.SampledFrom([]string{c.IDP.Base, c.IDP.Base, "https://login.example.org/realms/r2"}).Draw(t, "then-base"),
			MetaSuffix:    rapid.SampledFrom([]string{"", c.IDP.MetaSuffix, "?tenant=other"}).Draw(t, "then-metasuffix"),
			KeyName:       rapid.SampledFrom([]string{"", "", "idp2"}).Draw(t, "then-key"),
			Signer:        rapid.Bool().Draw(t, "then-signer"),
			StaleKey:      rapid.IntRange(0, 2).Draw(t, "then-stalekey") == 0,
			SigMethod:     rapid.SampledFrom(idpkit.RSAMethods).Draw(t, "then-sigmethod"),
			Intermediates: rapid.SampledFrom([]int{0, 1, 2}).Draw(t, "then-intermediates"),
		}.WithExtras(rapid.Bool().Draw(t, "then-logoutURL"), rapid.Bool().Draw(t, "then-loginURL"), rapid.SampledFrom([]int{0, 1, 8760}).Draw(t, "then-validHours"),
			rapid.IntRange(0, 2).Draw(t, "then-template") == 0, rapid.IntRange(0, 2).Draw(t, "then-maker") == 0)
		c.IDPThen = &then
	}
	if rapid.IntRange(0, 2).Draw(t, "re-register") == 0 {
		// the same SP registers again with other endpoints / keys / requested attributes before the second response
		then := SPMeta{EntityID: c.SP.EntityID, ViaXML: rapid.Bool().Draw(t, "then-viaXML"), Descs: genDescs(t, pool), Services: genServices(t),
			KeyUse:  rapid.SampledFrom([]string{"", "encryption", "unspecified", "signing", "both"}).Draw(t, "then-keyuse"),
			KeyName: rapid.SampledFrom([]string{"sp", "sp2"}).Draw(t, "then-keyname")}
		c.SPThen = &then
	}
	c.Markers = [2]string{"qa" + rapid.StringMatching(`[a-z0-9]{9}`).Draw(t, "markerA"), "qb" + rapid.StringMatching(`[a-z0-9]{9}`).Draw(t, "markerB")}
	c.Sessions = [2]idpkit.Sess{genSession(t, c.Markers[0]), genSession(t, c.Markers[1])}
	for i := range c.CreatedAgoMs {
		c.CreatedAgoMs[i] = rapid.SampledFrom([]int64{0, 1, 1000, 61001, 3599999, 86400000}).Draw(t, "created-ago")
		c.ExpiresInMs[i] = rapid.SampledFrom([]int64{0, 1, 59999, 3600001, 86400000}).Draw(t, "expires-in")
	}
	if !c.Initiated && rapid.IntRange(0, 2).Draw(t, "optional-request-content") != 0 {
		c.Opt = genOptional(t, c.Sessions[1])
	}
	return c
}

func min64(a, b int64) int64 {
	if a < b {
		return a
	}
	return b
}
func max64(a, b int64) int64 {
	if a > b {
		return a
	}
	return b
}

// ---------------------------------------------------------------- building

func (sp SPMeta) descriptor() (*saml.EntityDescriptor, error) {
	md := &saml.EntityDescriptor{EntityID: sp.EntityID, ValidUntil: fix.Epoch.Add(48 * time.Hour)}
	for _, d := range sp.Descs {
		desc := saml.SPSSODescriptor{}
		desc.ProtocolSupportEnumeration = "urn:oasis:names:tc:SAML:2.0:protocol"
		kd := func(use string) saml.KeyDescriptor {
			return saml.KeyDescriptor{Use: use, KeyInfo: saml.KeyInfo{X509Data: saml.X509Data{X509Certificates: []saml.X509Certificate{{Data: fix.Get(sp.KeyName).CertB64()}}}}}
		}
		switch sp.KeyUse {
		case "encryption":
			desc.KeyDescriptors = []saml.KeyDescriptor{kd("encryption")}
		case "unspecified":
			desc.KeyDescriptors = []saml.KeyDescriptor{kd("")}
		case "signing":
			desc.KeyDescriptors = []saml.KeyDescriptor{kd("signing")}
		case "both":
			desc.KeyDescriptors = []saml.KeyDescriptor{kd("signing"), kd("encryption")}
		}
		for _, e := range d {
			ie := saml.IndexedEndpoint{Binding: e.Binding, Location: e.Location, Index: e.Index}
			if e.Default != nil {
				b := *e.Default
				ie.IsDefault = &b
			}
			if e.Response != nil {
				r := *e.Response
				ie.ResponseLocation = &r
			}
			desc.AssertionConsumerServices = append(desc.AssertionConsumerServices, ie)
		}
		for i, svc := range sp.Services {
			s := saml.AttributeConsumingService{Index: i, ServiceNames: []saml.LocalizedName{{Lang: "en", Value: "svc"}}}
			if svc.Default != nil {
				b := *svc.Default
				s.IsDefault = &b
			}
			for _, a := range svc.Attrs {
				ra := saml.RequestedAttribute{Attribute: saml.Attribute{Name: a.Name, FriendlyName: a.FriendlyName, NameFormat: a.NameFormat}}
				for _, v := range a.Values {
					ra.Values = append(ra.Values, saml.AttributeValue{Type: "xs:string", Value: v})
				}
				s.RequestedAttributes = append(s.RequestedAttributes, ra)
			}
			desc.AttributeConsumingServices = append(desc.AttributeConsumingServices, s)
		}
		md.SPSSODescriptors = append(md.SPSSODescriptors, desc)
	}
	if sp.ViaXML {
		out, _, err := idpkit.RoundTrip(md)
		return out, err
	}
	return md, nil
}

func (sp SPMeta) encrypts() bool {
	return sp.KeyUse == "encryption" || sp.KeyUse == "unspecified" || sp.KeyUse == "both"
}

// ---------------------------------------------------------------- oracle

func parseInstant(s string) (time.Time, error) { return time.Parse(time.RFC3339Nano, s) }

type outcome struct {
	status int
	body   []byte
	sel    *saml.IndexedEndpoint
	panic  string
	log    []string
}

func (c Case) serve(idp *saml.IdentityProvider, sessions *idpkit.Sessions, reqID string, now time.Time) outcome {
	rec := httptest.NewRecorder()
	sessions.Seen = nil
	var out outcome
	func() {
		defer func() {
			if e := recover(); e != nil {
				out.panic = fmt.Sprintf("%v\n%s", e, idpkit.CleanStack(debug.Stack(), 8))
			}
		}()
		if c.Initiated {
			r := httptest.NewRequest("GET", c.IDP.Base+"/launch", nil)
			r.RemoteAddr = "192.0.2.7:4711"
			idp.ServeIDPInitiated(rec, r, c.SP.EntityID, c.Relay)
			return
		}
		spec := idpkit.ReqSpec{ID: idpkit.P(reqID), Version: idpkit.P("2.0"), Issuer: idpkit.P(c.SP.EntityID), ACSURL: c.ACSURL, ACSIndex: c.ACSIndex,
			IssueInstant: idpkit.P(idpkit.FormatTime(now.Add(-time.Duration(c.ClockMs) * time.Millisecond))), Opt: c.Opt}
		if c.Dest {
			spec.Destination = idpkit.P(c.IDP.SSOURL())
		}
		idp.ServeSSO(rec, idpkit.Encode(c.Method, spec.XML(), c.Relay, c.IDP.SSOURL()))
	}()
	out.status, out.body = rec.Code, rec.Body.Bytes()
	if len(sessions.Seen) == 1 {
		out.sel = sessions.Seen[0].ACSEndpoint
	}
	out.log = idp.Logger.(*idpkit.Quiet).Lines
	return out
}

func contains(list []string, s string) bool {
	for _, x := range list {
		if x == s {
			return true
		}
	}
	return false
}

// judge checks one emitted page against the session it was made for.
func (c Case) judge(o outcome, sp SPMeta, md *saml.EntityDescriptor, reqID string, me, other int, now time.Time) string {
	form, err := idpkit.ReadForm(o.body)
	if err != nil {
		return fmt.Sprintf("status 200 but no form: %v", err)
	}
	if form.NForms != 1 || !strings.EqualFold(form.Method, "post") {
		return fmt.Sprintf("%d forms, method %q: not a single POST form", form.NForms, form.Method)
	}
	if form.Fields["RelayState"] != c.Relay {
		return fmt.Sprintf("RelayState %q, want %q", form.Fields["RelayState"], c.Relay)
	}
	raw, err := base64.StdEncoding.DecodeString(form.Fields["SAMLResponse"])
	if err != nil || len(raw) == 0 {
		return fmt.Sprintf("SAMLResponse field is not base64 of a document: %v", err)
	}
	if o.sel == nil {
		return "no ACS endpoint was selected"
	}
	var idxp, urlp *string
	if !c.Initiated {
		idxp, urlp = c.ACSIndex, c.ACSURL
		if complaint, _ := idpkit.JudgeSelection(o.sel, md, idxp, urlp); complaint != "" {
			return complaint
		}
	} else if !idpkit.Member(*o.sel, idpkit.AllACS(md)) {
		return fmt.Sprintf("selected endpoint %s is not registered", idpkit.EndpointKey(o.sel))
	}
	if o.sel.Binding != post {
		return fmt.Sprintf("a POST form was emitted for the non-POST endpoint %s", idpkit.EndpointKey(o.sel))
	}
	loc := o.sel.Location
	if form.Action != loc {
		return fmt.Sprintf("form action %q is not the selected registered Location %q", form.Action, loc)
	}
	// the same from the request and the registered metadata alone (nothing the implementation stored)
	if allowed := idpkit.AllowedTargets(md, idxp, urlp, c.Initiated); !idpkit.InSet(form.Action, allowed...) {
		return fmt.Sprintf("form action %q is not the Location of a registered HTTP-POST endpoint the request admits (admitted %q)", form.Action, allowed)
	}
	loc = form.Action

	root, err := xmlw.Parse(raw)
	if err != nil {
		return fmt.Sprintf("emitted response is not well-formed: %v\n%s", err, trunc(raw))
	}
	if !root.Is(xmlw.NSProtocol, "Response") {
		return fmt.Sprintf("root element is {%s}%s", root.Space, root.Local)
	}
	wantIRT := reqID
	if c.Initiated {
		wantIRT = ""
	}
	attrIs := func(n *xmlw.Node, what, name, want string, absentIfEmpty bool) string {
		got, ok := n.Attr(name)
		if want == "" && absentIfEmpty {
			if ok {
				return fmt.Sprintf("%s carries %s=%q, want none", what, name, got)
			}
			return ""
		}
		if !ok || got != want {
			return fmt.Sprintf("%s %s=%q (present=%v), want %q", what, name, got, ok, want)
		}
		return ""
	}
	if m := attrIs(root, "Response", "Destination", loc, false); m != "" {
		return m
	}
	if m := attrIs(root, "Response", "InResponseTo", wantIRT, true); m != "" {
		return m
	}
	idpID := c.IDP.EntityID()
	if iss := root.Kid(xmlw.NSAssertion, "Issuer"); iss == nil || iss.Text != idpID {
		return fmt.Sprintf("Response Issuer is not the IdP entity ID %q", idpID)
	}

	// signatures, with a fresh context trusting only the IdP certificate
	cert := c.IDP.Keys().Cert
	rs := idpkit.VerifyRoot(raw, cert)
	if rs.Err != nil {
		return fmt.Sprintf("the Response signature does not verify under the IdP certificate: %v\n%s", rs.Err, trunc(raw))
	}
	if rs.Method != c.IDP.EffectiveMethod() {
		return fmt.Sprintf("Response SignatureMethod %q, configured %q", rs.Method, c.IDP.EffectiveMethod())
	}
	if len(root.Kids(xmlw.NSDsig, "Signature")) != 1 {
		return "Response does not carry exactly one enveloped Signature child"
	}

	plain := root.Kids(xmlw.NSAssertion, "Assertion")
	encd := root.Kids(xmlw.NSAssertion, "EncryptedAssertion")
	if len(plain)+len(encd) != 1 {
		return fmt.Sprintf("%d Assertion and %d EncryptedAssertion elements", len(plain), len(encd))
	}
	var as *xmlw.Node
	var as_sig idpkit.SigInfo
	var opened []byte
	if len(encd) == 1 {
		if !sp.encrypts() {
			return "assertion encrypted although the SP publishes no encryption key"
		}
		pt, err := idpkit.OpenEncrypted(encd[0], fix.Get(sp.KeyName).RSA())
		if err != nil {
			return fmt.Sprintf("EncryptedAssertion does not open with the SP key (stdlib reference): %v", err)
		}
		opened = pt
		// second, independently written reference (internal/refenc): both openers must agree
		if pt2, err2 := refOpen(raw, fix.Get(sp.KeyName).RSA()); err2 != nil || string(pt2) != string(pt) {
			return fmt.Sprintf("harness references disagree on the EncryptedAssertion plaintext (refenc: %v, %d vs %d octets)", err2, len(pt2), len(pt))
		}
		as, err = xmlw.Parse(pt)
		if err != nil {
			return fmt.Sprintf("decrypted assertion is not well-formed: %v\n%s", err, trunc(pt))
		}
		as_sig = idpkit.VerifyRoot(pt, cert)
	} else {
		as = plain[0]
		as_sig = idpkit.VerifyChild(raw, "Assertion", cert)
	}
	if !as.Is(xmlw.NSAssertion, "Assertion") {
		return fmt.Sprintf("assertion element is {%s}%s", as.Space, as.Local)
	}
	if as_sig.Err != nil {
		return fmt.Sprintf("the Assertion signature does not verify under the IdP certificate: %v\n%s", as_sig.Err, trunc(append(append([]byte{}, raw...), opened...)))
	}
	if as_sig.Method != c.IDP.EffectiveMethod() {
		return fmt.Sprintf("Assertion SignatureMethod %q, configured %q", as_sig.Method, c.IDP.EffectiveMethod())
	}
	if len(as.Kids(xmlw.NSDsig, "Signature")) != 1 {
		return "Assertion does not carry exactly one enveloped Signature child"
	}

	if iss := as.Kid(xmlw.NSAssertion, "Issuer"); iss == nil || iss.Text != idpID {
		return fmt.Sprintf("Assertion Issuer is not the IdP entity ID %q", idpID)
	}
	subj := as.Kid(xmlw.NSAssertion, "Subject")
	if subj == nil {
		return "no single Subject"
	}
	sess := c.Sessions[me]
	// the name identifier is the session's: an empty session NameID means an empty (or absent) NameID,
	// never a value taken from anywhere else (e.g. the Subject the requester asked for)
	if len(subj.Kids(xmlw.NSAssertion, "NameID")) > 1 {
		return "more than one NameID in the Subject"
	}
	nid, gotNameID := subj.Kid(xmlw.NSAssertion, "NameID"), ""
	if nid != nil {
		gotNameID = nid.Text
	}
	if gotNameID != sess.NameID || (nid == nil && sess.NameID != "") {
		return fmt.Sprintf("NameID %q (present=%v), session NameID %q", gotNameID, nid != nil, sess.NameID)
	}
	// nothing that only the request carried may show up as subject, condition or attribute
	for _, part := range append([]*xmlw.Node{subj, as.Kid(xmlw.NSAssertion, "Conditions")}, as.Kids(xmlw.NSAssertion, "AttributeStatement")...) {
		if part == nil {
			continue
		}
		for _, str := range part.Strings() {
			if strings.Contains(str, reqMarker) {
				return fmt.Sprintf("a value supplied only by the AuthnRequest appears in the assertion's %s: %q", part.Local, str)
			}
		}
	}
	bearers := 0
	for _, sc := range subj.Kids(xmlw.NSAssertion, "SubjectConfirmation") {
		if m, _ := sc.Attr("Method"); m != "urn:oasis:names:tc:SAML:2.0:cm:bearer" {
			continue
		}
		bearers++
		d := sc.Kid(xmlw.NSAssertion, "SubjectConfirmationData")
		if d == nil {
			return "bearer confirmation without SubjectConfirmationData"
		}
		if m := attrIs(d, "bearer confirmation", "Recipient", loc, false); m != "" {
			return m
		}
		if m := attrIs(d, "bearer confirmation", "InResponseTo", wantIRT, true); m != "" {
			return m
		}
		noa, _ := d.Attr("NotOnOrAfter")
		tm, err := parseInstant(noa)
		want := now.Add(time.Duration(c.DelayMs) * time.Millisecond)
		if err != nil || !tm.Equal(want) {
			return fmt.Sprintf("bearer NotOnOrAfter %q, want issuance + MaxIssueDelay = %s", noa, idpkit.FormatTime(want))
		}
	}
	if bearers != 1 {
		return fmt.Sprintf("%d bearer confirmations", bearers)
	}
	cond := as.Kid(xmlw.NSAssertion, "Conditions")
	if cond == nil {
		return "no single Conditions"
	}
	nb, ok := cond.Attr("NotBefore")
	tm, err := parseInstant(nb)
	earliest := now.Add(-time.Duration(c.SkewMs) * time.Millisecond)
	if !ok || err != nil || tm.Before(earliest) {
		return fmt.Sprintf("Conditions NotBefore %q opens earlier than issuance - MaxClockSkew = %s", nb, idpkit.FormatTime(earliest))
	}
	auds := cond.All(xmlw.NSAssertion, "Audience")
	if len(auds) == 0 {
		return "no Audience"
	}
	for _, a := range auds {
		if a.Text != md.EntityID {
			return fmt.Sprintf("Audience %q, registered entity ID %q", a.Text, md.EntityID)
		}
	}
	// every attribute value is a user attribute of THIS session (never its ID / handle), and an attribute
	// whose name is documented for one session field carries exactly that field
	allowed := sess.IdentityStrings()
	for _, v := range as.All(xmlw.NSAssertion, "AttributeValue") {
		if len(v.Children) > 0 {
			return "AttributeValue with element content"
		}
		if !contains(allowed, v.Text) {
			return fmt.Sprintf("attribute value %q is not a user attribute of the authenticated session", v.Text)
		}
	}
	for _, at := range as.All(xmlw.NSAssertion, "Attribute") {
		name, _ := at.Attr("Name")
		want, known := documentedValues(name, sess)
		if !known {
			continue
		}
		var got []string
		for _, v := range at.Kids(xmlw.NSAssertion, "AttributeValue") {
			got = append(got, v.Text)
		}
		if fmt.Sprintf("%q", got) != fmt.Sprintf("%q", want) {
			return fmt.Sprintf("attribute %q carries %q, the session field documented for it holds %q", name, got, want)
		}
	}
	// the statements about the authentication itself come from the session too
	for _, st := range as.Kids(xmlw.NSAssertion, "AuthnStatement") {
		if ix, ok := st.Attr("SessionIndex"); (ok || sess.Index != "") && ix != sess.Index {
			return fmt.Sprintf("AuthnStatement SessionIndex %q, session Index %q", ix, sess.Index)
		}
		ai, _ := st.Attr("AuthnInstant")
		if tm, err := parseInstant(ai); err != nil || !tm.Equal(c.created(me, now)) {
			return fmt.Sprintf("AuthnInstant %q, the session was created at %s", ai, idpkit.FormatTime(c.created(me, now)))
		}
	}
	if sess.NameIDFormat != "" && nid != nil {
		if f, _ := nid.Attr("Format"); f != sess.NameIDFormat {
			return fmt.Sprintf("NameID Format %q, session NameIDFormat %q", f, sess.NameIDFormat)
		}
	}
	// the session ID is the IdP's internal handle of the session, not an attribute of the user
	if len(sess.ID) >= 8 {
		for _, hay := range [][]byte{o.body, raw, opened} {
			if strings.Contains(string(hay), sess.ID) {
				return fmt.Sprintf("the session's ID %q (internal session handle) appears in the emitted response", sess.ID)
			}
		}
	}
	// nothing the SP's metadata merely lists as values of interest is asserted about the user
	for _, hay := range [][]byte{raw, opened} {
		if strings.Contains(string(hay), metaMarker) {
			return "a value that only occurs in the SP's metadata (RequestedAttribute/AttributeValue) appears in the response"
		}
	}
	// nothing of the other session anywhere in what was emitted
	om := c.Markers[other]
	for _, hay := range [][]byte{o.body, raw, opened} {
		if strings.Contains(string(hay), om) {
			return fmt.Sprintf("marker %q of the other session appears in the output for this session", om)
		}
	}
	return ""
}

// refOpen opens the EncryptedAssertion child of the response with internal/refenc.
func refOpen(response []byte, key *rsa.PrivateKey) ([]byte, error) {
	d := etree.NewDocument()
	if err := d.ReadFromBytes(response); err != nil {
		return nil, err
	}
	for _, ch := range d.Root().ChildElements() {
		if ch.Tag == "EncryptedAssertion" {
			return refenc.DecryptElement(ch, key)
		}
	}
	return nil, fmt.Errorf("no EncryptedAssertion")
}

var nonAlnum = regexp.MustCompile("[^A-Za-z0-9]+")

// documentedValues is the reference mapping attribute name -> session field: the standard LDAP / eduPerson
// object identifiers, subject-id, the session's custom attributes, and the names an SP may request.
func documentedValues(name string, s idpkit.Sess) ([]string, bool) {
	one := func(v string) ([]string, bool) { return []string{v}, true }
	switch name {
	case "urn:oid:0.9.2342.19200300.100.1.1":
		return one(s.UserName)
	case "urn:oid:0.9.2342.19200300.100.1.3":
		return one(s.Email)
	case "urn:oid:1.3.6.1.4.1.5923.1.1.1.6":
		if s.EPPN != "" {
			return one(s.EPPN)
		}
		return one(s.Email)
	case "urn:oid:2.5.4.4":
		return one(s.Surname)
	case "urn:oid:2.5.4.42":
		return one(s.GivenName)
	case "urn:oid:2.5.4.3":
		return one(s.CommonName)
	case "urn:oid:1.3.6.1.4.1.5923.1.1.1.9":
		return one(s.Affiliation)
	case "urn:oid:1.3.6.1.4.1.5923.1.1.1.1":
		return append([]string(nil), s.Groups...), true
	case "urn:oasis:names:tc:SAML:attribute:subject-id":
		return one(s.SubjectID)
	}
	for _, a := range s.Custom {
		if a.Name == name {
			return append([]string(nil), a.Values...), true
		}
	}
	switch nonAlnum.ReplaceAllString(name, "") {
	case "email", "emailaddress":
		return one(s.Email)
	case "name", "fullname", "cn", "commonname":
		return one(s.CommonName)
	case "givenname", "firstname":
		return one(s.GivenName)
	case "surname", "lastname", "familyname":
		return one(s.Surname)
	case "uid", "user", "userid":
		return one(s.UserName)
	}
	return nil, false
}

func trunc(b []byte) string {
	if len(b) > 4000 {
		b = append(append([]byte{}, b[:4000]...), "..."...)
	}
	return idpkit.Detail(string(b))
}

func firstLines(s string, n int) string {
	l := strings.Split(s, "\n")
	if len(l) > n {
		l = l[:n]
	}
	return strings.Join(l, "\n")
}

func check(c Case) (res pbt.Result) {
	now := fix.Epoch
	fix.SetNow(now)
	saml.MaxClockSkew = time.Duration(c.SkewMs) * time.Millisecond
	saml.MaxIssueDelay = time.Duration(c.DelayMs) * time.Millisecond

	md, err := c.SP.descriptor()
	if err != nil {
		return pbt.Result{Skip: true}
	}
	reg := &idpkit.Registry{M: map[string]*saml.EntityDescriptor{c.SP.EntityID: md}}
	sessions := &idpkit.Sessions{}
	idp := c.IDP.Build(reg, sessions)

	// classes and non-trivial rule
	cl := []string{"sig:" + c.IDP.EffectiveMethod()[strings.LastIndex(c.IDP.EffectiveMethod(), "#")+1:], fmt.Sprintf("intermediates:%d", c.IDP.Intermediates), "keyuse:" + c.SP.KeyUse}
	if c.IDP.Signer {
		cl = append(cl, "key:signer")
	} else {
		cl = append(cl, "key:private")
	}
	if c.Initiated {
		cl = append(cl, "flow:initiated")
	} else {
		cl = append(cl, "flow:"+c.Method)
		switch {
		case c.ClockMs < 0:
			cl = append(cl, "clock:before-request")
		case c.ClockMs == 0:
			cl = append(cl, "clock:equal")
		case c.ClockMs <= c.SkewMs:
			cl = append(cl, "clock:within-skew")
		default:
			cl = append(cl, "clock:far-after")
		}
		switch {
		case c.ACSIndex != nil && c.ACSURL != nil:
			cl = append(cl, "acs:index+url")
		case c.ACSIndex != nil:
			cl = append(cl, "acs:index")
		case c.ACSURL != nil:
			cl = append(cl, "acs:url")
		default:
			cl = append(cl, "acs:none")
		}
	}
	for i, sx := range c.Sessions {
		if sx.NameID == "" {
			cl = append(cl, fmt.Sprintf("session%d:empty-nameid", i))
		}
	}
	if c.Opt.SubjectNameID != nil {
		cl = append(cl, "request:subject-nameid")
		if c.Sessions[0].NameID == "" || c.Sessions[1].NameID == "" {
			cl = append(cl, "request:subject-nameid+empty-session-nameid")
		}
	}
	if len(c.Opt.Strings()) > 0 || c.Opt.PolicyAllowCreate != nil || c.Opt.AttrSvcIndex != nil || c.Opt.ForceAuthn != nil {
		cl = append(cl, "request:optional-content")
	}
	if len(c.SP.Services) > 0 {
		cl = append(cl, "attr-services")
		for _, svc := range c.SP.Services {
			for _, a := range svc.Attrs {
				if len(a.Values) > 0 {
					cl = append(cl, "attr-services:requested-attribute-with-values")
					break
				}
			}
		}
	}
	seen := map[string]bool{}
	nonPlain := false
	for _, s := range c.Sessions {
		for _, str := range s.IdentityStrings() {
			if !xgen.Plain(str) {
				nonPlain = true
			}
			for _, k := range xgen.Classify(str) {
				if !seen[k] {
					seen[k] = true
					cl = append(cl, k)
				}
			}
		}
	}
	res.Classes = cl
	res.NonTrivial = nonPlain || c.IDP.Signer || c.IDP.SigMethod != "" || (!c.Initiated && c.ClockMs <= c.SkewMs && c.ClockMs != 0)

	sp := c.SP
	cur := c // the configuration in force for the response being judged
	rounds := 2
	if c.IDPThen != nil {
		rounds = 3
	}
	for round := 0; round < rounds; round++ {
		i := round % 2 // which session
		if c.IDPThen != nil && round > 0 {
			if round == 1 {
				cur.IDP = *c.IDPThen
			} else {
				cur.IDP = c.IDP
			}
			cur.IDP.Apply(idp)
			res.Classes = append(res.Classes, "sequence:idp-reconfigured")
			res.NonTrivial = true
		}
		if round == 1 && c.SPThen != nil {
			sp = *c.SPThen
			sp.EntityID = c.SP.EntityID
			md, err = sp.descriptor()
			if err != nil {
				return pbt.Result{Skip: true}
			}
			reg.M[sp.EntityID] = md
			res.Classes = append(res.Classes, "sequence:re-registered")
			res.NonTrivial = true
		}
		sessions.S = c.session(i, now)
		reqID := fmt.Sprintf("%s-%d", c.ReqID, round)
		idp.Logger.(*idpkit.Quiet).Lines = nil
		o := cur.serve(idp, sessions, reqID, now)
		if o.panic != "" {
			res.Err = fmt.Sprintf("serving response %d panicked: %s", round, o.panic)
			res.NonTrivial = true
			return res
		}
		if o.status >= 400 {
			// an error status is the property's other permitted outcome; it must not carry a response
			if f, err := idpkit.ReadForm(o.body); err == nil && f.Fields["SAMLResponse"] != "" {
				res.Err = fmt.Sprintf("status %d with a SAMLResponse form", o.status)
				return res
			}
			res.Classes = append(res.Classes, "outcome:error-status")
			// non-vacuity: when the selected endpoint is a registered HTTP-POST one the IdP has everything it needs
			// (an IdP that refuses to work with both Key and Signer configured would be within the property)
			if o.sel != nil && o.sel.Binding == post && idpkit.Member(*o.sel, idpkit.AllACS(md)) && !cur.IDP.StaleKey {
				res.Err = fmt.Sprintf("non-vacuity: status %d although an HTTP-POST endpoint %s was selected; log: %v", o.status, idpkit.EndpointKey(o.sel), o.log)
				res.NonTrivial = true
			}
			return res
		}
		if o.status != 200 {
			res.Err = fmt.Sprintf("status %d: neither a response form nor an error status", o.status)
			return res
		}
		if round == 0 {
			res.Classes = append(res.Classes, "outcome:form")
			if o.sel != nil {
				first := idpkit.AllACS(md)[0]
				if (c.ACSURL != nil && o.sel.Location != *c.ACSURL) || idpkit.EndpointKey(o.sel) != idpkit.EndpointKey(&first) {
					res.NonTrivial = true
					res.Classes = append(res.Classes, "selected:not-request-url-or-not-first")
				}
			}
			if o.sel != nil && o.sel.ResponseLocation != nil {
				res.Classes = append(res.Classes, "selected:has-response-location")
			}
			if len(md.SPSSODescriptors) > 0 && c.SP.encrypts() {
				res.Classes = append(res.Classes, "assertion:encrypted")
			} else {
				res.Classes = append(res.Classes, "assertion:plain")
			}
		}
		if msg := cur.judge(o, sp, md, reqID, i, 1-i, now); msg != "" {
			res.Err = fmt.Sprintf("response %d (session marker %s): %s", round, c.Markers[i], msg)
			res.NonTrivial = true
			return res
		}
	}
	return res
}

// ---------------------------------------------------------------- exhaustive part

// enumConfigs: signature method x key kind x intermediates x key use x flow x clock position, plain sessions.
func enumConfigs(_ string, emit func(Case)) {
	tr := true
	sessA := idpkit.Sess{ID: "sessionhandle0enumaaaa", SubjectID: "qaaaaaaaaaaa-subject", Index: "ia", NameID: "qaaaaaaaaaaa-alice", UserName: "qaaaaaaaaaaa-u", Email: "qaaaaaaaaaaa@example.com", Groups: []string{"qaaaaaaaaaaa-g1", "qaaaaaaaaaaa-g2"},
		Custom: []idpkit.Attr{{Name: "urn:custom:0", FriendlyName: "c0", Values: []string{"qaaaaaaaaaaa <&> \"v\""}}}}
	sessB := idpkit.Sess{ID: "sessionhandle0enumbbbb", SubjectID: "qbbbbbbbbbbb-subject", Index: "ib", NameID: "qbbbbbbbbbbb-bob", CommonName: "qbbbbbbbbbbb Bob", Surname: "qbbbbbbbbbbb-sn"}
	for _, m := range idpkit.RSAMethods {
		for _, signer := range []bool{false, true} {
			for _, inter := range []int{0, 1, 2} {
				for _, use := range []string{"", "encryption", "unspecified", "signing", "both"} {
					for _, flow := range []string{"GET", "POST", "initiated"} {
						for _, clock := range []int64{-5000, 0, 1000, 179999, 180000, 180001, 3599999} {
							if flow == "initiated" && clock != 0 {
								continue
							}
							c := Case{IDP: idpkit.IDPConf{Base: "https://idp.example.com", Signer: signer, StaleKey: signer && inter == 1, SigMethod: m, Intermediates: inter},
								SkewMs: 180000, DelayMs: 3600000,
								SP: SPMeta{EntityID: "https://sp.example.com/saml/metadata", KeyUse: use, KeyName: "sp",
									Descs: [][]EP{{{Binding: post, Location: "https://sp.example.com/saml/acs", Index: 0}, {Binding: post, Location: "https://sp.example.com/saml/acs/b", Index: 1, Default: &tr}}}},
								Initiated: flow == "initiated", ClockMs: clock, ReqID: "id-enum", Relay: "rs",
								Sessions: [2]idpkit.Sess{sessA, sessB}, Markers: [2]string{"qaaaaaaaaaaa", "qbbbbbbbbbbb"}}
							if flow != "initiated" {
								c.Method = flow
								c.ACSURL = idpkit.P("https://sp.example.com/saml/acs")
								c.ACSIndex = idpkit.P("1")
							}
							emit(c)
						}
					}
				}
			}
		}
	}
}

// enumMetadataExtras: registered metadata that carries what ordinary SP metadata does not - ResponseLocation on
// ACS endpoints, RequestedAttributes listing values of interest - crossed with every way of selecting the
// endpoint, encryption on/off, and a re-registration between the two responses.
func enumMetadataExtras(_ string, emit func(Case)) {
	locA, locB, ret := "https://sp.example.com/saml/acs", "https://sp.example.com/saml/acs-eu", "https://status.sp.example.com/saml/return"
	sessA := idpkit.Sess{ID: "sessionhandle0enumaaaa", SubjectID: "qaaaaaaaaaaa-subject", Index: "ia", NameID: "qaaaaaaaaaaa-alice", UserName: "qaaaaaaaaaaa-u", Email: "qaaaaaaaaaaa@example.com", CommonName: "qaaaaaaaaaaa Alice", Surname: "qaaaaaaaaaaa-sn", GivenName: "qaaaaaaaaaaa-gn"}
	sessB := idpkit.Sess{ID: "sessionhandle0enumbbbb", SubjectID: "qbbbbbbbbbbb-subject", Index: "ib", NameID: "qbbbbbbbbbbb-bob", UserName: "qbbbbbbbbbbb-u", Email: "qbbbbbbbbbbb@example.com"}
	basic := "urn:oasis:names:tc:SAML:2.0:attrname-format:basic"
	svc := func(values bool) []AttrSvc {
		var v1, v2 []string
		if values {
			v1, v2 = []string{metaMarker + "-admin@sp.example.com"}, []string{metaMarker + "-root", metaMarker + "-operator"}
		}
		return []AttrSvc{{Attrs: []ReqAttr{{Name: "email", FriendlyName: "E-mail", NameFormat: basic, Values: v1}, {Name: "uid", NameFormat: basic, Values: v2},
			{Name: "cn", NameFormat: "urn:oasis:names:tc:SAML:2.0:attrname-format:unspecified", Values: v1}, {Name: "surname", NameFormat: basic, Values: v2}, {Name: "first_name", NameFormat: basic, Values: v1}}}}
	}
	for _, respOn := range []int{-1, 0, 1, 2} { // which endpoint(s) carry a ResponseLocation: none, first, second, both
		for _, values := range []bool{false, true} {
			for _, use := range []string{"", "encryption"} {
				for _, viaXML := range []bool{false, true} {
					for _, how := range []string{"initiated", "none", "url-a", "url-b", "index-b", "index-b+url-a"} {
						for _, rereg := range []bool{false, true} {
							a := EP{Binding: post, Location: locA, Index: 0}
							b := EP{Binding: post, Location: locB, Index: 1}
							if respOn == 0 || respOn == 2 {
								a.Response = idpkit.P(ret)
							}
							if respOn == 1 || respOn == 2 {
								b.Response = idpkit.P(locA)
							}
							c := Case{IDP: idpkit.IDPConf{Base: "https://idp.example.com", Logout: true}, SkewMs: 180000, DelayMs: 90000,
								SP:    SPMeta{EntityID: "https://sp.example.com/saml/metadata", KeyUse: use, KeyName: "sp", ViaXML: viaXML, Descs: [][]EP{{a, b}}, Services: svc(values)},
								ReqID: "id-enum", Relay: "rs", ClockMs: 1000,
								Sessions: [2]idpkit.Sess{sessA, sessB}, Markers: [2]string{"qaaaaaaaaaaa", "qbbbbbbbbbbb"}}
							if rereg {
								// the endpoints swap roles, the requested attributes gain/lose their values
								c.SPThen = &SPMeta{EntityID: c.SP.EntityID, KeyUse: use, KeyName: "sp2", ViaXML: !viaXML, Descs: [][]EP{{b, a}}, Services: svc(!values)}
							}
							switch how {
							case "initiated":
								c.Initiated = true
							case "url-a":
								c.ACSURL = idpkit.P(locA)
							case "url-b":
								c.ACSURL = idpkit.P(locB)
							case "index-b":
								c.ACSIndex = idpkit.P("1")
							case "index-b+url-a":
								c.ACSIndex, c.ACSURL = idpkit.P("1"), idpkit.P(locA)
							}
							if !c.Initiated {
								c.Method = "POST"
							}
							emit(c)
						}
					}
				}
			}
		}
	}
}

// enumRequestContent: every optional element / attribute of the AuthnRequest, alone and all together, against
// sessions with and without a NameID, plain and encrypted, both encodings.
func enumRequestContent(_ string, emit func(Case)) {
	full := idpkit.ReqOptional{
		SubjectNameID: idpkit.P(reqMarker + "-ceo@victim.example.com"), SubjectFormat: string(saml.EmailAddressNameIDFormat), SubjectConfirmation: true,
		Extensions: idpkit.P(reqMarker + "-extension"), PolicyFormat: idpkit.P(string(saml.PersistentNameIDFormat)), PolicySPNameQual: idpkit.P("https://other-sp.example.org/metadata"),
		PolicyAllowCreate: idpkit.P("true"), ConditionsAudience: idpkit.P("https://" + reqMarker + ".example.net/audience"),
		AuthnContextClass: idpkit.P("urn:oasis:names:tc:SAML:2.0:ac:classes:X509"), RequesterID: idpkit.P("https://" + reqMarker + ".example.net/requester"),
		ProviderName: idpkit.P(reqMarker + " portal"), AttrSvcIndex: idpkit.P("1"), ForceAuthn: idpkit.P("true"), IsPassive: idpkit.P("false"), Consent: idpkit.P("urn:oasis:names:tc:SAML:2.0:consent:obtained"),
	}
	opts := []idpkit.ReqOptional{full,
		{SubjectNameID: full.SubjectNameID},
		{SubjectNameID: idpkit.P(reqMarker), SubjectFormat: full.SubjectFormat, SubjectConfirmation: true},
		{Extensions: full.Extensions}, {PolicyFormat: full.PolicyFormat, PolicySPNameQual: full.PolicySPNameQual, PolicyAllowCreate: idpkit.P("false")},
		{ConditionsAudience: full.ConditionsAudience}, {AuthnContextClass: full.AuthnContextClass}, {RequesterID: full.RequesterID},
		{ProviderName: full.ProviderName, AttrSvcIndex: full.AttrSvcIndex, ForceAuthn: full.ForceAuthn, IsPassive: full.IsPassive, Consent: full.Consent}}
	withID := idpkit.Sess{ID: "sessionhandle0enumaaaa", SubjectID: "qaaaaaaaaaaa-subject", Index: "ia", NameID: "qaaaaaaaaaaa-alice", UserName: "qaaaaaaaaaaa-u", Email: "qaaaaaaaaaaa@example.com"}
	noID := idpkit.Sess{ID: "sessionhandle0enumbbbb", SubjectID: "qbbbbbbbbbbb-subject", Index: "ib", NameID: "", UserName: "qbbbbbbbbbbb-u", Groups: []string{"qbbbbbbbbbbb-g"}}
	for _, o := range opts {
		for _, order := range [][2]idpkit.Sess{{withID, noID}, {noID, withID}} {
			for _, use := range []string{"", "encryption"} {
				for _, m := range []string{"GET", "POST"} {
					for _, services := range []bool{false, true} {
						c := Case{IDP: idpkit.IDPConf{Base: "https://idp.example.com"}, SkewMs: 180000, DelayMs: 90000,
							SP:     SPMeta{EntityID: "https://sp.example.com/saml/metadata", KeyUse: use, KeyName: "sp", Descs: [][]EP{{{Binding: post, Location: "https://sp.example.com/saml/acs", Index: 0}}}},
							Method: m, ReqID: "id-enum", Relay: "rs", ClockMs: 1000, Opt: o, Sessions: order, Markers: [2]string{"qaaaaaaaaaaa", "qbbbbbbbbbbb"}}
						if order[0].NameID == "" {
							c.Markers = [2]string{"qbbbbbbbbbbb", "qaaaaaaaaaaa"}
						}
						if services {
							c.SP.Services = []AttrSvc{{Attrs: []ReqAttr{{Name: "uid", NameFormat: "urn:oasis:names:tc:SAML:2.0:attrname-format:basic"}}}, {Attrs: []ReqAttr{{Name: "email", NameFormat: "urn:oasis:names:tc:SAML:2.0:attrname-format:basic"}}}}
						}
						emit(c)
					}
				}
			}
		}
	}
}

// enumReconfiguration: one IdentityProvider value, three responses, its public fields changed in between
// (signature method, key pair, Key <-> Signer, intermediates, URLs) - each response is judged against the
// configuration in force when it was issued.
func enumReconfiguration(_ string, emit func(Case)) {
	sha256m, sha512m := idpkit.RSAMethods[2], idpkit.RSAMethods[4]
	base := idpkit.IDPConf{Base: "https://idp.example.com"}
	with := func(f func(*idpkit.IDPConf)) idpkit.IDPConf { x := base; f(&x); return x }
	pairs := [][2]idpkit.IDPConf{
		{base, with(func(x *idpkit.IDPConf) { x.SigMethod = sha256m })},
		{with(func(x *idpkit.IDPConf) { x.SigMethod = sha512m }), base},
		{base, with(func(x *idpkit.IDPConf) { x.KeyName = "idp2" })},
		{with(func(x *idpkit.IDPConf) { x.KeyName = "idp2"; x.Signer = true }), with(func(x *idpkit.IDPConf) { x.SigMethod = sha256m })},
		{base, with(func(x *idpkit.IDPConf) { x.Signer = true })},
		{with(func(x *idpkit.IDPConf) { x.Signer = true; x.SigMethod = sha256m }), with(func(x *idpkit.IDPConf) { x.KeyName = "idp2"; x.SigMethod = sha256m })},
		{base, with(func(x *idpkit.IDPConf) { x.Intermediates = 2 })},
		{with(func(x *idpkit.IDPConf) { x.Intermediates = 2; x.Logout = true }), with(func(x *idpkit.IDPConf) { x.ValidHours = 1; x.Template = true })},
		{base, with(func(x *idpkit.IDPConf) { x.Base = "https://login.example.org/realms/r2" })},
		{base, with(func(x *idpkit.IDPConf) {
			x.Base = "https://login.example.org/realms/r2"
			x.KeyName = "idp2"
			x.SigMethod = sha512m
			x.Intermediates = 1
		})},
	}
	sessA := idpkit.Sess{ID: "sessionhandle0enumaaaa", SubjectID: "qaaaaaaaaaaa-subject", Index: "ia", NameID: "qaaaaaaaaaaa-alice", UserName: "qaaaaaaaaaaa-u"}
	sessB := idpkit.Sess{ID: "sessionhandle0enumbbbb", SubjectID: "qbbbbbbbbbbb-subject", Index: "ib", NameID: "qbbbbbbbbbbb-bob", Email: "qbbbbbbbbbbb@example.com"}
	for _, pr := range pairs {
		for _, use := range []string{"", "encryption"} {
			for _, flow := range []string{"GET", "POST", "initiated"} {
				then := pr[1]
				c := Case{IDP: pr[0], IDPThen: &then, SkewMs: 180000, DelayMs: 90000,
					SP:    SPMeta{EntityID: "https://sp.example.com/saml/metadata", KeyUse: use, KeyName: "sp", Descs: [][]EP{{{Binding: post, Location: "https://sp.example.com/saml/acs", Index: 0}}}},
					ReqID: "id-enum", Relay: "rs", ClockMs: 1000, Dest: true, Sessions: [2]idpkit.Sess{sessA, sessB}, Markers: [2]string{"qaaaaaaaaaaa", "qbbbbbbbbbbb"}}
				if flow == "initiated" {
					c.Initiated = true
				} else {
					c.Method = flow
				}
				emit(c)
			}
		}
	}
}

var prop = &pbt.Prop[Case]{
	ID: "C06",
	Rule: "cases: two consecutive validated requests (GET-deflate / POST; ACS named by URL, by index, by both, or not at all) or IdP-initiated launches served by one IdP for two sessions with disjoint markers " +
		"(all strings from the XML-1.0 classes) x registered SP metadata (1-2 descriptors x 1-3 ACS endpoints, attribute-consuming services with requested attributes in each name format, key descriptor none/encryption/unspecified/signing/both) " +
		"x IdP config (RSA Key or opaque crypto.Signer, default + each RSA signature method, 0-2 intermediates) x (MaxClockSkew, MaxIssueDelay) x clock position relative to the request's IssueInstant; " +
		"registered ACS endpoints may carry ResponseLocation, RequestedAttributes may list AttributeValue children (marked, metadata-only values), the IdP configuration fields no clause mentions are varied (LogoutURL, LoginURL, ValidDuration, form template, explicit assertion maker, stale Key beside a Signer), " +
		"and in a third of the cases the SP is re-registered (other endpoints / keys / requested attributes) on the same registry and IdentityProvider value between the two responses, the second being judged against the new registration; " +
		"sessions may have an empty NameID (then the emitted NameID must be empty or absent) and two thirds of the SP-initiated cases carry optional, requester-chosen request content (Subject/NameID, NameIDPolicy, Extensions, Conditions, RequestedAuthnContext, Scoping, ProviderName, AttributeConsumingServiceIndex, ForceAuthn, IsPassive, Consent) whose marked values must not appear in the assertion's Subject, Conditions or attributes (own exhaustive grid); " +
		"in a third of the cases the public fields of the same IdentityProvider value are re-configured (signature method, key pair, Key/Signer, certificate, intermediates, URLs, ValidDuration, template) before the second response and switched back before a third, each response being judged against the configuration in force when it was issued (own exhaustive grid); " +
		"exhaustive: method x key kind x intermediates x key use x flow x clock grid; ResponseLocation x requested-attribute values x encryption x selection mode x re-registration grid. " +
		"non-trivial: selected endpoint differs from the request's ACS URL or from the first registered endpoint, or a session string is non-ASCII/markup, or the clock is within MaxClockSkew of the request's IssueInstant, or a non-default signature method / external signer is configured. distinct: sha256 of the JSON case.",
	Gen:   gen,
	Check: check,
	Reset: fix.Reset,
	Enums: []pbt.Enum[Case]{{Name: "config-grid", Each: enumConfigs}, {Name: "metadata-extras-grid", Each: enumMetadataExtras}, {Name: "request-optional-content-grid", Each: enumRequestContent}, {Name: "idp-reconfiguration-grid", Each: enumReconfiguration}},
	Assumptions: []string{
		"the emitted form is read with golang.org/x/net/html, the decoded XML with an own reader on encoding/xml's tokenizer, EncryptedAssertion is opened with a stdlib-only RSA-OAEP/AES-CBC helper and, as cross-check, with internal/refenc",
		"signatures are verified with goxmldsig (fresh ValidationContext, only the IdP certificate, IdAttribute ID, fake clock at the fixture epoch): the observation point the property names",
		"instants are generated at millisecond resolution (what the emitted lexical form keeps)",
		"an error status is a permitted outcome (non-POST endpoint selected); non-vacuity: when an HTTP-POST endpoint was selected the IdP must answer with a form",
		"the form target is additionally judged against the Locations derived from the request and the registered metadata alone (AllowedTargets); Destination and Recipient must equal the form action",
		"which endpoint must be selected is judged by the C05 selection oracle; attribute names may come from the SP's requested attributes, attribute values only from the session",
	},
}

func TestCheck(t *testing.T) { pbt.Run(t, prop) }

func FuzzCheck(f *testing.F) { pbt.Fuzz(f, prop) }
