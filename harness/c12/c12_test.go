// Package c12: SP outbound messages survive their binding encodings, the relay
// state round-trips as one parameter, the library IdP accepts every AuthnRequest
// the SP made, and message IDs are derived from >= 128 bits of the configured
// random source.
package c12

import (
	"bytes"
	"encoding/hex"
	"encoding/xml"
	"fmt"
	"io"
	"net/http"
	"net/http/httptest"
	"net/url"
	"os"
	"reflect"
	"strings"
	"testing"
	"time"
	"unicode/utf8"

	"github.com/crewjam/saml"
	"github.com/crewjam/saml/logger"
	dsig "github.com/russellhaering/goxmldsig"
	"pgregory.net/rapid"

	"verif/harness/internal/fix"
	"verif/harness/internal/htmlw"
	"verif/harness/internal/pbt"
	"verif/harness/internal/samlwire"
	"verif/harness/internal/urlw"
	"verif/harness/internal/xgen"
)

// ---------------------------------------------------------------- case

// Case is one SP configuration plus a sequence of message creations.
type Case struct {
	Conf Conf  `json:"conf"`
	Msgs []Msg `json:"msgs"`
	// Rand is the hex of the octets the recording random source hands out (it
	// continues with an offset-derived filler when exhausted).  "" together with
	// DefaultRand means the library's default source (crypto/rand) is left in place.
	Rand        string `json:"rand"`
	DefaultRand bool   `json:"default_rand,omitempty"`
	// Chunk is the maximum number of octets the source returns per Read call.
	Chunk int `json:"chunk"`
	// Flip selects the bit (0..127) of the first 16 octets consumed by message 0
	// that the derivation re-run inverts.
	Flip int `json:"flip"`
}

// Conf is the generated SP / IdP configuration.
type Conf struct {
	EntityID    string `json:"entity_id"` // "" = fall back to the metadata URL
	MetadataURL string `json:"metadata_url"`
	AcsURL      string `json:"acs_url"`
	SloURL      string `json:"slo_url"`

	IDPMetadataURL string `json:"idp_metadata_url"`
	IDPSSO         string `json:"idp_sso"`          // both SSO bindings (the library IdP has one SSO URL)
	IDPSLORedirect string `json:"idp_slo_redirect"` // may carry a query and a fragment
	IDPSLOPost     string `json:"idp_slo_post"`

	Key       string `json:"key"`        // fixture name
	SigMethod string `json:"sig_method"` // "" = signing off

	NameIDFormat string `json:"nameid_format"`
	ForceAuthn   *bool  `json:"force_authn,omitempty"`
	AuthnCtx     *Ctx   `json:"authn_ctx,omitempty"`

	// IDPLayout: how the SP's copy of the IdP metadata lists its endpoints (see idpSpec): one or
	// several IDPSSODescriptors, endpoint order, endpoints of other bindings, the binding in use
	// only in a later descriptor, several endpoints of one binding.  The destination must be the
	// first endpoint of the requested binding in document order over all descriptors.
	IDPLayout string `json:"idp_layout,omitempty"`
	// RespLoc: ResponseLocation on the IdP's real endpoints: "" absent | same | other (a different URL).
	// Requests go to Location; for a LogoutResponse the property does not say which of the two is
	// "the configured destination": either is accepted, but wire form and Destination attribute must agree.
	RespLoc string `json:"resp_loc,omitempty"`
	// IDPWant: WantAuthnRequestsSigned on the IDPSSODescriptors: "" absent | true | false (never judged
	// here: what the IdP says it wants does not change where messages go or what they carry).
	IDPWant string `json:"idp_want,omitempty"`
	// Fields no clause mentions; varied, never judged.
	LogoutBindings     []string `json:"logout_bindings,omitempty"`
	AllowIDPInitiated  bool     `json:"allow_idp_initiated,omitempty"`
	ValidDurationS     int      `json:"valid_duration_s,omitempty"`
	DefaultRedirectURI string   `json:"default_redirect_uri,omitempty"`
}

// Ctx is a RequestedAuthnContext.
type Ctx struct {
	Comparison string `json:"comparison"`
	ClassRef   string `json:"class_ref"`
}

// Msg is one message creation.
type Msg struct {
	Type       string `json:"type"`    // authn | logoutreq | logoutresp
	Binding    string `json:"binding"` // redirect | post
	RelayState string `json:"relay_state"`
	NameID     string `json:"name_id,omitempty"`    // logoutreq
	RequestID  string `json:"request_id,omitempty"` // logoutresp: InResponseTo

	// Set: public fields of the ONE long-lived ServiceProvider value changed right before this
	// creation (nil = left alone).  The message must reflect the configuration in force then.
	Set *Set `json:"set,omitempty"`
}

// Set is a configuration change between two creations.
type Set struct {
	EntityID     *string `json:"entity_id,omitempty"`
	NameIDFormat *string `json:"nameid_format,omitempty"`
	ForceAuthn   string  `json:"force_authn,omitempty"` // "" unchanged | nil | true | false
	AuthnCtx     string  `json:"authn_ctx,omitempty"`   // "" unchanged | nil | set
	Ctx          *Ctx    `json:"ctx,omitempty"`
	// IDP: the IdP's metadata is refreshed (the IdP moved its endpoints / changed its layout).
	IDP *IDPChange `json:"idp,omitempty"`
}

// IDPChange is a refresh of the IdP metadata held by the long-lived SP.
type IDPChange struct {
	// Mode: pointer (sp.IDPMetadata = fresh) | inplace (*sp.IDPMetadata = *fresh) |
	// descriptors (sp.IDPMetadata.IDPSSODescriptors = fresh.IDPSSODescriptors)
	Mode        string `json:"mode"`
	SSO         string `json:"sso"`
	SLORedirect string `json:"slo_redirect"`
	SLOPost     string `json:"slo_post"`
	Layout      string `json:"layout,omitempty"`
}

// ---------------------------------------------------------------- generators

var urlMeta = []string{"&", "=", "#", "+", "%", "?", ";", "/", " ", "\"", "'", "%20", "%26", "%zz", "&b=c", "#frag", "&SAMLRequest=x", "&RelayState=y", "&SigAlg=z", "&Signature=s", "a&b=c", "=", "==", "\\", "<", ">", "{", "}", "|", "^", "`", "[", "]", "~", "-", "_", ".", "!", "*", "(", ")", ",", ":", "@", "$"}

func genRelay(t *rapid.T, label string) string {
	switch rapid.IntRange(0, 11).Draw(t, label+"class") {
	case 0:
		return ""
	case 1:
		return rapid.StringMatching(`[A-Za-z0-9_.~-]{1,40}`).Draw(t, label+"plain")
	case 2, 3, 4: // URL metacharacters between words
		n := rapid.IntRange(1, 6).Draw(t, label+"n")
		var sb strings.Builder
		for i := 0; i < n; i++ {
			if rapid.Bool().Draw(t, label+"w") {
				sb.WriteString(rapid.StringMatching(`[a-zA-Z0-9]{0,6}`).Draw(t, label+"word"))
			}
			sb.WriteString(rapid.SampledFrom(urlMeta).Draw(t, label+"meta"))
		}
		return sb.String()
	case 5: // a URL as relay state (what applications actually put there)
		return xgen.HTTPURL().Draw(t, label+"url") + "?" + rapid.StringMatching(`[a-z]{1,4}=[a-zA-Z0-9%+&=#]{0,12}`).Draw(t, label+"q")
	case 6: // long: beyond the 80 bytes the binding recommends
		n := rapid.IntRange(81, 300).Draw(t, label+"len")
		unit := rapid.SampledFrom([]string{"a", "ab&", "é", "x=y&", "%", "+ ", "日本", "z#"}).Draw(t, label+"unit")
		return strings.Repeat(unit, n/len(unit)+1)[:cutRune(strings.Repeat(unit, n/len(unit)+1), n)]
	case 7: // control characters other than NUL (valid UTF-8 text without NUL)
		return rapid.StringMatching(`[a-z]{0,4}`).Draw(t, label+"pre") + rapid.SampledFrom([]string{"\n", "\r", "\r\n", "\t", "\x01", "\x1b", "\x7f", "\u0085", "\u2028", "\u2029", "\ufeff", "\ufffe", "\uffff"}).Draw(t, label+"ctl") + rapid.StringMatching(`[a-z&=]{0,4}`).Draw(t, label+"post")
	case 8: // exactly around 80 bytes
		n := rapid.IntRange(78, 82).Draw(t, label+"len80")
		return strings.Repeat("r", n)
	default:
		s := xgen.Text().Draw(t, label+"text")
		return strings.ReplaceAll(s, "\x00", "")
	}
}

func cutRune(s string, n int) int {
	if n >= len(s) {
		return len(s)
	}
	for n > 0 && !utf8.RuneStart(s[n]) {
		n--
	}
	return n
}

// genXMLText: name IDs and request IDs are XML-1.0-representable strings (DESIGN 2.6).
func genXMLText(t *rapid.T, label string) string {
	switch rapid.IntRange(0, 6).Draw(t, label+"class") {
	case 6: // carriage returns: multi-line DN-style values and stray CRs
		return rapid.SampledFrom([]string{"CN=Jane Doe\r\nOU=People", "trailing\r", "\rleading", "a\rb", "a\r\n\r\nb", "\r", "x\ty\nz\r"}).Draw(t, label+"cr")
	case 0:
		return rapid.StringMatching(`[a-z0-9._-]{1,12}@[a-z]{1,8}\.[a-z]{2,3}`).Draw(t, label+"mail")
	case 1:
		return rapid.StringMatching(`[a-zA-Z0-9]{0,6}`).Draw(t, label+"w") + rapid.SampledFrom(urlMeta).Draw(t, label+"meta") + rapid.StringMatching(`[a-zA-Z0-9]{0,6}`).Draw(t, label+"w2")
	case 2:
		n := rapid.IntRange(81, 200).Draw(t, label+"len")
		return strings.Repeat("n", n)
	default:
		return xgen.Text().Draw(t, label+"text")
	}
}

// cleanQuery draws a pre-existing query from octets that every reader agrees on
// (no ';', no malformed escape; see the Assumptions of prop).
func cleanQuery(t *rapid.T, label string) string {
	n := rapid.IntRange(1, 3).Draw(t, label+"n")
	var parts []string
	for i := 0; i < n; i++ {
		k := rapid.SampledFrom([]string{"tenant", "t", "a", "idp", "x-y", "k%20k", "k+k", "a"}).Draw(t, label+"k")
		switch rapid.IntRange(0, 4).Draw(t, label+"form") {
		case 0:
			parts = append(parts, k) // no '='
		case 1:
			parts = append(parts, k+"=")
		default:
			parts = append(parts, k+"="+rapid.StringMatching(`([A-Za-z0-9_.~-]|%20|%26|%3D|%2B|%23|%25|%C3%A9|\+|:|/|@|,|!){1,10}`).Draw(t, label+"v"))
		}
	}
	return strings.Join(parts, "&")
}

func normURL(s string) string {
	u, err := url.Parse(s)
	if err != nil {
		panic(err)
	}
	return u.String()
}

func genEndpoint(t *rapid.T, label string, allowFragment bool) string {
	s := xgen.HTTPURL().Draw(t, label)
	switch rapid.IntRange(0, 3).Draw(t, label+"q") {
	case 0, 1:
		s += "?" + cleanQuery(t, label+"query")
	}
	if allowFragment && rapid.IntRange(0, 5).Draw(t, label+"f") == 0 {
		s += "#" + rapid.StringMatching(`[a-z0-9]{1,6}`).Draw(t, label+"frag")
	}
	return normURL(s)
}

var rsaMethods = []string{dsig.RSASHA1SignatureMethod, dsig.RSASHA256SignatureMethod, dsig.RSASHA384SignatureMethod, dsig.RSASHA512SignatureMethod}
var ecMethods = []string{dsig.ECDSASHA1SignatureMethod, dsig.ECDSASHA256SignatureMethod, dsig.ECDSASHA384SignatureMethod, dsig.ECDSASHA512SignatureMethod}

var nameIDFormats = []string{"", string(saml.UnspecifiedNameIDFormat), string(saml.TransientNameIDFormat), string(saml.EmailAddressNameIDFormat), string(saml.PersistentNameIDFormat),
	"urn:oasis:names:tc:SAML:1.1:nameid-format:X509SubjectName", "urn:example:custom&format=\"1\""}

func genConf(t *rapid.T) Conf {
	c := Conf{
		MetadataURL:    xgen.HTTPURL().Draw(t, "spmeta"),
		AcsURL:         genEndpoint(t, "acs", false),
		SloURL:         xgen.HTTPURL().Draw(t, "slo"),
		IDPMetadataURL: xgen.HTTPURL().Draw(t, "idpmeta"),
		IDPSSO:         genEndpoint(t, "sso", true),
		IDPSLORedirect: genEndpoint(t, "sloredir", true),
		IDPSLOPost:     genEndpoint(t, "slopost", true),
		NameIDFormat:   rapid.SampledFrom(nameIDFormats).Draw(t, "nidfmt"),
	}
	switch rapid.IntRange(0, 3).Draw(t, "entity") {
	case 0:
		c.EntityID = ""
	case 1:
		c.EntityID = xgen.HTTPURL().Draw(t, "entityurl")
	case 2:
		c.EntityID = "urn:example:sp:" + rapid.StringMatching(`[a-z0-9&<>"' =+#%]{1,10}`).Draw(t, "entityurn")
	default:
		c.EntityID = xgen.TextNonEmpty().Draw(t, "entitytext")
	}
	switch rapid.IntRange(0, 3).Draw(t, "signing") {
	case 0, 1:
		c.Key = "sp"
	case 2:
		c.Key, c.SigMethod = "sp", rapid.SampledFrom(rsaMethods).Draw(t, "rsam")
	default:
		c.Key, c.SigMethod = "spec", rapid.SampledFrom(ecMethods).Draw(t, "ecm")
	}
	switch rapid.IntRange(0, 2).Draw(t, "force") {
	case 1:
		v := true
		c.ForceAuthn = &v
	case 2:
		v := false
		c.ForceAuthn = &v
	}
	if rapid.IntRange(0, 2).Draw(t, "ctx") == 0 {
		c.AuthnCtx = &Ctx{
			Comparison: rapid.SampledFrom([]string{"exact", "minimum", "maximum", "better", ""}).Draw(t, "cmp"),
			ClassRef:   rapid.SampledFrom(classRefs).Draw(t, "cref"),
		}
	}
	c.IDPLayout = rapid.SampledFrom(append([]string{"", ""}, idpLayouts...)).Draw(t, "layout")
	c.RespLoc = rapid.SampledFrom([]string{"", "", "same", "other"}).Draw(t, "resploc")
	c.IDPWant = rapid.SampledFrom([]string{"", "", "true", "false"}).Draw(t, "idpwant")
	c.LogoutBindings = rapid.SampledFrom([][]string{nil, {saml.HTTPPostBinding}, {saml.HTTPRedirectBinding, saml.HTTPPostBinding}, {saml.HTTPRedirectBinding}}).Draw(t, "logoutbindings")
	c.AllowIDPInitiated = rapid.Bool().Draw(t, "idpinit")
	c.ValidDurationS = rapid.SampledFrom([]int{0, 0, 3600, 86400 * 30}).Draw(t, "validdur")
	c.DefaultRedirectURI = rapid.SampledFrom([]string{"", "/", "/app?x=1&y=2"}).Draw(t, "defredir")
	return c
}

var classRefs = []string{"urn:oasis:names:tc:SAML:2.0:ac:classes:PasswordProtectedTransport", "urn:oasis:names:tc:SAML:2.0:ac:classes:X509", "urn:x:a&b<c>", "urn:x:line1\rline2", ""}

func genSet(t *rapid.T, label string) *Set {
	if rapid.IntRange(0, 3).Draw(t, label+"has") != 0 {
		return nil
	}
	st := &Set{}
	switch rapid.IntRange(0, 6).Draw(t, label+"what") {
	case 5, 6:
		st.IDP = &IDPChange{
			Mode: rapid.SampledFrom([]string{"pointer", "inplace", "inplace", "descriptors"}).Draw(t, label+"idpmode"),
			SSO:  genEndpoint(t, label+"sso", true), SLORedirect: genEndpoint(t, label+"slor", true), SLOPost: genEndpoint(t, label+"slop", true),
			Layout: rapid.SampledFrom(idpLayouts).Draw(t, label+"idplayout"),
		}
		return st
	case 0:
		v := rapid.SampledFrom([]string{"", "https://other.example/saml/metadata", "urn:example:sp:changed&<>", "urn:with\rcr"}).Draw(t, label+"entity")
		st.EntityID = &v
	case 1:
		v := rapid.SampledFrom(nameIDFormats).Draw(t, label+"fmt")
		st.NameIDFormat = &v
	case 2:
		st.ForceAuthn = rapid.SampledFrom([]string{"nil", "true", "false"}).Draw(t, label+"force")
	case 3:
		st.AuthnCtx = "nil"
	default:
		st.AuthnCtx = "set"
		st.Ctx = &Ctx{Comparison: rapid.SampledFrom([]string{"exact", "minimum", ""}).Draw(t, label+"cmp"), ClassRef: rapid.SampledFrom(classRefs).Draw(t, label+"cref")}
	}
	return st
}

func genMsg(t *rapid.T, label string) Msg {
	m := Msg{
		Type:       rapid.SampledFrom([]string{"authn", "authn", "logoutreq", "logoutresp"}).Draw(t, label+"type"),
		Binding:    rapid.SampledFrom([]string{"redirect", "redirect", "post"}).Draw(t, label+"binding"),
		RelayState: genRelay(t, label+"rs"),
	}
	switch m.Type {
	case "logoutreq":
		m.NameID = genXMLText(t, label+"nid")
	case "logoutresp":
		m.RequestID = genXMLText(t, label+"rid")
	}
	return m
}

func gen(t *rapid.T) Case {
	c := Case{Conf: genConf(t), Chunk: rapid.SampledFrom([]int{64, 64, 20, 7, 1}).Draw(t, "chunk"), Flip: rapid.IntRange(0, 127).Draw(t, "flip")}
	n := 1
	if rapid.IntRange(0, 2).Draw(t, "seq") == 0 {
		n = rapid.IntRange(2, 20).Draw(t, "nmsgs")
	}
	for i := 0; i < n; i++ {
		m := genMsg(t, fmt.Sprintf("m%d", i))
		if i > 0 {
			m.Set = genSet(t, fmt.Sprintf("m%dset", i))
		}
		c.Msgs = append(c.Msgs, m)
	}
	if rapid.IntRange(0, 9).Draw(t, "defaultrand") == 0 {
		c.DefaultRand = true
	} else {
		// 24 octets per creation: the library draws 20; the surplus shows if it asks for more.
		c.Rand = hex.EncodeToString(rapid.SliceOfN(rapid.Byte(), 24*n, 24*n).Draw(t, "rand"))
	}
	return c
}

// ---------------------------------------------------------------- the recording random source

type recReader struct {
	src   []byte
	off   int
	chunk int
	// flipAt >= 0: invert bit flipBit of the octet at that absolute offset.
	flipAt, flipBit int
}

func (r *recReader) at(i int) byte {
	var b byte
	if i < len(r.src) {
		b = r.src[i]
	} else {
		// deterministic filler derived from the offset only (never repeats within 2^16 windows)
		x := uint32(i)*2654435761 + 0x9e3779b9
		b = byte(x>>24) ^ byte(x>>13) ^ byte(i)
	}
	if i == r.flipAt {
		b ^= 1 << uint(r.flipBit)
	}
	return b
}

func (r *recReader) Read(p []byte) (int, error) {
	n := len(p)
	if r.chunk > 0 && n > r.chunk {
		n = r.chunk
	}
	for i := 0; i < n; i++ {
		p[i] = r.at(r.off + i)
	}
	r.off += n
	return n, nil
}

func (r *recReader) window(from, to int) []byte {
	out := make([]byte, 0, to-from)
	for i := from; i < to; i++ {
		out = append(out, r.at(i))
	}
	return out
}

// ---------------------------------------------------------------- building the parties

type spStub struct {
	id string
	md *saml.EntityDescriptor
}

func (s *spStub) GetServiceProvider(_ *http.Request, id string) (*saml.EntityDescriptor, error) {
	if id == s.id {
		return s.md, nil
	}
	return nil, os.ErrNotExist
}

type quiet struct{ logger.Interface }

func (quiet) Printf(string, ...interface{}) {}
func (quiet) Println(...interface{})        {}
func (quiet) Print(...interface{})          {}

func mustURL(s string) url.URL {
	u, err := url.Parse(s)
	if err != nil {
		panic(fmt.Sprintf("harness: generated URL %q does not parse: %v", s, err))
	}
	return *u
}

type parties struct {
	sp     *saml.ServiceProvider
	idp    *saml.IdentityProvider
	issuer string
	stub   *spStub // what the IdP consults
	reg    *spStub // registration matching the SP's current configuration (nil = the initial one)
}

func xmlRound(in, out any) error {
	b, err := xml.Marshal(in)
	if err != nil {
		return err
	}
	return xml.Unmarshal(b, out)
}

// idpMetadataFor is the SP's copy of the IdP metadata for a configuration: what the IdP publishes,
// laid out by the harness's own specification (idpSpec).
func idpMetadataFor(idp *saml.IdentityProvider, c Conf) (*saml.EntityDescriptor, error) {
	// The SP is configured from what the IdP publishes ...
	idpMD := &saml.EntityDescriptor{}
	if err := xmlRound(idp.Metadata(), idpMD); err != nil {
		return nil, fmt.Errorf("harness: IdP metadata does not round-trip: %v", err)
	}
	if len(idpMD.IDPSSODescriptors) != 1 {
		return nil, fmt.Errorf("harness: IdP metadata has %d IDPSSODescriptors", len(idpMD.IDPSSODescriptors))
	}
	// ... plus single-logout endpoints for both bindings (the library IdP publishes none for POST).
	idpMD.IDPSSODescriptors[0].SingleLogoutServices = []saml.Endpoint{
		{Binding: saml.HTTPRedirectBinding, Location: c.IDPSLORedirect},
		{Binding: saml.HTTPPostBinding, Location: c.IDPSLOPost},
	}
	// the descriptors the SP sees are laid out by the harness's own specification of the metadata
	spec := idpSpec(c)
	proto := idpMD.IDPSSODescriptors[0] // keeps the published key descriptors and name ID formats
	switch c.IDPWant {
	case "true", "false":
		w := c.IDPWant == "true"
		proto.WantAuthnRequestsSigned = &w
	}
	idpMD.IDPSSODescriptors = nil
	for _, ds := range spec {
		d := proto
		d.SingleSignOnServices = append([]saml.Endpoint(nil), ds.sso...)
		d.SingleLogoutServices = append([]saml.Endpoint(nil), ds.slo...)
		idpMD.IDPSSODescriptors = append(idpMD.IDPSSODescriptors, d)
	}
	return idpMD, nil
}

func build(c Conf) (*parties, error) {
	idpk := fix.Get("idp")
	idp := &saml.IdentityProvider{
		Key: idpk.Key, Certificate: idpk.Cert, Logger: quiet{},
		MetadataURL: mustURL(c.IDPMetadataURL), SSOURL: mustURL(c.IDPSSO),
	}
	idpMD, err := idpMetadataFor(idp, c)
	if err != nil {
		return nil, err
	}
	k := fix.Get(c.Key)
	sp := &saml.ServiceProvider{
		EntityID: c.EntityID, Key: k.Key, Certificate: k.Cert,
		MetadataURL: mustURL(c.MetadataURL), AcsURL: mustURL(c.AcsURL), SloURL: mustURL(c.SloURL),
		IDPMetadata: idpMD, AuthnNameIDFormat: saml.NameIDFormat(c.NameIDFormat),
		SignatureMethod: c.SigMethod, ForceAuthn: c.ForceAuthn,
		LogoutBindings: c.LogoutBindings, AllowIDPInitiated: c.AllowIDPInitiated, DefaultRedirectURI: c.DefaultRedirectURI,
		MetadataValidDuration: time.Duration(c.ValidDurationS) * time.Second,
	}
	if c.AuthnCtx != nil {
		sp.RequestedAuthnContext = &saml.RequestedAuthnContext{Comparison: c.AuthnCtx.Comparison, AuthnContextClassRef: c.AuthnCtx.ClassRef}
	}
	issuer := c.EntityID
	if issuer == "" {
		issuer = c.MetadataURL
	}
	// ... and the IdP knows the SP through the SP's published metadata.
	spMD := &saml.EntityDescriptor{}
	if err := xmlRound(sp.Metadata(), spMD); err != nil {
		return nil, fmt.Errorf("SP metadata does not round-trip through its XML form: %v", err)
	}
	stub := &spStub{id: spMD.EntityID, md: spMD}
	idp.ServiceProviderProvider = stub
	return &parties{sp: sp, idp: idp, issuer: issuer, stub: stub}, nil
}

// apply changes the long-lived SP the way an application would between two calls and
// returns the configuration now in force.
func apply(p *parties, eff Conf, st *Set) (Conf, error) {
	if st == nil {
		return eff, nil
	}
	if st.EntityID != nil {
		eff.EntityID = *st.EntityID
		p.sp.EntityID = *st.EntityID
		p.issuer = eff.EntityID
		if p.issuer == "" {
			p.issuer = eff.MetadataURL
		}
		// the IdP learns about the renamed SP from the metadata it publishes now
		spMD := &saml.EntityDescriptor{}
		if err := xmlRound(p.sp.Metadata(), spMD); err != nil {
			return eff, fmt.Errorf("SP metadata does not round-trip through its XML form: %v", err)
		}
		p.reg = &spStub{id: spMD.EntityID, md: spMD}
	}
	if ch := st.IDP; ch != nil {
		eff.IDPSSO, eff.IDPSLORedirect, eff.IDPSLOPost, eff.IDPLayout = ch.SSO, ch.SLORedirect, ch.SLOPost, ch.Layout
		p.idp.SSOURL = mustURL(eff.IDPSSO) // the IdP itself moved
		fresh, err := idpMetadataFor(p.idp, eff)
		if err != nil {
			return eff, err
		}
		switch ch.Mode {
		case "inplace":
			*p.sp.IDPMetadata = *fresh
		case "descriptors":
			p.sp.IDPMetadata.IDPSSODescriptors = fresh.IDPSSODescriptors
		default:
			p.sp.IDPMetadata = fresh
		}
	}
	if st.NameIDFormat != nil {
		eff.NameIDFormat = *st.NameIDFormat
		p.sp.AuthnNameIDFormat = saml.NameIDFormat(*st.NameIDFormat)
	}
	switch st.ForceAuthn {
	case "nil":
		eff.ForceAuthn, p.sp.ForceAuthn = nil, nil
	case "true", "false":
		v, w := st.ForceAuthn == "true", st.ForceAuthn == "true"
		eff.ForceAuthn, p.sp.ForceAuthn = &v, &w
	}
	switch st.AuthnCtx {
	case "nil":
		eff.AuthnCtx, p.sp.RequestedAuthnContext = nil, nil
	case "set":
		if st.Ctx != nil {
			cp := *st.Ctx
			eff.AuthnCtx = &cp
			p.sp.RequestedAuthnContext = &saml.RequestedAuthnContext{Comparison: cp.Comparison, AuthnContextClassRef: cp.ClassRef}
		}
	}
	return eff, nil
}

// ---------------------------------------------------------------- creating and decoding one message

type emitted struct {
	// u / page: exactly what the call returned (kept while later calls are made)
	u    *url.URL
	page []byte
	// wire0: a copy of the wire form taken right at creation (redirect: the URL text; post: the HTML)
	wire0 string
	// wire: the wire form as read from u / page when the message is judged
	wire string
	err  error
	pan  any
}

// now reads the wire form from the retained return value.
func (e *emitted) now() string {
	if e.u != nil {
		return e.u.String()
	}
	return string(e.page)
}

func create(p *parties, m Msg) (e emitted) {
	defer func() {
		if r := recover(); r != nil {
			e.pan = r
		}
	}()
	var u *url.URL
	var page []byte
	switch m.Type + "/" + m.Binding {
	case "authn/redirect":
		u, e.err = p.sp.MakeRedirectAuthenticationRequest(m.RelayState)
	case "authn/post":
		page, e.err = p.sp.MakePostAuthenticationRequest(m.RelayState)
	case "logoutreq/redirect":
		u, e.err = p.sp.MakeRedirectLogoutRequest(m.NameID, m.RelayState)
	case "logoutreq/post":
		page, e.err = p.sp.MakePostLogoutRequest(m.NameID, m.RelayState)
	case "logoutresp/redirect":
		u, e.err = p.sp.MakeRedirectLogoutResponse(m.RequestID, m.RelayState)
	case "logoutresp/post":
		page, e.err = p.sp.MakePostLogoutResponse(m.RequestID, m.RelayState)
	default:
		e.err = fmt.Errorf("harness: unknown message %s/%s", m.Type, m.Binding)
	}
	if e.err != nil {
		return e
	}
	e.u, e.page = u, page
	e.wire0 = strings.Clone(e.now())
	e.wire = e.wire0
	return e
}

// descSpec is one IDPSSODescriptor of the metadata the SP is configured with.
type descSpec struct{ sso, slo []saml.Endpoint }

var idpLayouts = []string{"", "post-first", "decoys", "later-descriptor", "empty-first", "other-bindings-first", "split", "duplicates"}

// idpSpec is the harness's specification of the IdP metadata for a layout.  Every layout offers
// every binding somewhere; the configured destination of a binding is the FIRST matching endpoint in
// document order over ALL descriptors (how this library reads "the IdP's endpoint for the binding").
func idpSpec(c Conf) []descSpec {
	ssoR := saml.Endpoint{Binding: saml.HTTPRedirectBinding, Location: c.IDPSSO}
	ssoP := saml.Endpoint{Binding: saml.HTTPPostBinding, Location: c.IDPSSO}
	sloR := saml.Endpoint{Binding: saml.HTTPRedirectBinding, Location: c.IDPSLORedirect}
	sloP := saml.Endpoint{Binding: saml.HTTPPostBinding, Location: c.IDPSLOPost}
	for i, e := range []*saml.Endpoint{&ssoR, &ssoP, &sloR, &sloP} {
		switch c.RespLoc {
		case "same":
			e.ResponseLocation = e.Location
		case "other":
			e.ResponseLocation = fmt.Sprintf("https://idp.example.org/responses/%d?kind=response", i)
		}
	}
	decoy := func(b string, n int) saml.Endpoint {
		return saml.Endpoint{Binding: b, Location: fmt.Sprintf("https://decoy%d.example/wrong", n)}
	}
	others := func(n int) []saml.Endpoint {
		return []saml.Endpoint{decoy(saml.HTTPArtifactBinding, n), decoy(saml.SOAPBinding, n+1), decoy("urn:example:binding", n+2)}
	}
	switch c.IDPLayout {
	case "post-first":
		return []descSpec{{sso: []saml.Endpoint{ssoP, ssoR}, slo: []saml.Endpoint{sloP, sloR}}}
	case "decoys":
		mix := func(a, b saml.Endpoint) []saml.Endpoint {
			return []saml.Endpoint{decoy(saml.HTTPArtifactBinding, 1), a, decoy(saml.SOAPBinding, 2), decoy("urn:example:binding", 3), b, decoy("urn:oasis:names:tc:SAML:2.0:bindings:PAOS", 4)}
		}
		return []descSpec{{sso: mix(ssoR, ssoP), slo: mix(sloR, sloP)}}
	case "later-descriptor": // the first descriptor has endpoints, but none of the binding in use
		return []descSpec{{sso: []saml.Endpoint{ssoP}, slo: []saml.Endpoint{sloR}}, {sso: []saml.Endpoint{ssoR}, slo: []saml.Endpoint{sloP}}}
	case "empty-first": // a descriptor without any endpoint in front
		return []descSpec{{}, {sso: []saml.Endpoint{ssoR, ssoP}, slo: []saml.Endpoint{sloR, sloP}}}
	case "other-bindings-first": // the first descriptor offers only other bindings
		return []descSpec{{sso: others(10), slo: others(20)}, {}, {sso: []saml.Endpoint{ssoR, ssoP}, slo: []saml.Endpoint{sloR, sloP}}}
	case "split": // every binding in a descriptor of its own, logout before sign-on
		return []descSpec{{slo: []saml.Endpoint{sloP}}, {sso: []saml.Endpoint{ssoR}}, {slo: []saml.Endpoint{sloR}}, {sso: []saml.Endpoint{ssoP}}}
	case "duplicates": // several endpoints of one binding: the first in document order is the configured one
		return []descSpec{
			{sso: []saml.Endpoint{ssoR, decoy(saml.HTTPRedirectBinding, 30), ssoP, decoy(saml.HTTPPostBinding, 31)}, slo: []saml.Endpoint{sloP}},
			{sso: []saml.Endpoint{decoy(saml.HTTPRedirectBinding, 32), decoy(saml.HTTPPostBinding, 33)}, slo: []saml.Endpoint{decoy(saml.HTTPPostBinding, 34), sloR, decoy(saml.HTTPRedirectBinding, 35)}},
		}
	}
	return []descSpec{{sso: []saml.Endpoint{ssoR, ssoP}, slo: []saml.Endpoint{sloR, sloP}}}
}

// endpointOf derives the configured destination from the specification: the first endpoint of the
// binding in use, in document order over all descriptors ("" when the metadata offers none).
func endpointOf(c Conf, m Msg) string {
	binding := saml.HTTPPostBinding
	if m.Binding == "redirect" {
		binding = saml.HTTPRedirectBinding
	}
	for _, d := range idpSpec(c) {
		l := d.slo
		if m.Type == "authn" {
			l = d.sso
		}
		for _, e := range l {
			if e.Binding == binding {
				return e.Location
			}
		}
	}
	return ""
}

// destinations lists what may be the destination of m: the endpoint's Location and, for a
// LogoutResponse only, its ResponseLocation when the metadata gives a different one.
func destinations(c Conf, m Msg) []string {
	out := []string{endpointOf(c, m)}
	if m.Type != "logoutresp" {
		return out
	}
	binding := saml.HTTPPostBinding
	if m.Binding == "redirect" {
		binding = saml.HTTPRedirectBinding
	}
	for _, d := range idpSpec(c) {
		for _, e := range d.slo {
			if e.Binding == binding {
				if e.ResponseLocation != "" && e.ResponseLocation != e.Location {
					out = append(out, e.ResponseLocation)
				}
				return out
			}
		}
	}
	return out
}

func paramOf(m Msg) (mine, other string) {
	if m.Type == "logoutresp" {
		return "SAMLResponse", "SAMLRequest"
	}
	return "SAMLRequest", "SAMLResponse"
}

// attrSpace applies XML 1.0 3.3.3 to both sides of an attribute comparison: a literal TAB or LF
// inside an attribute value is read as a space by a conforming parser (the property is silent about
// white space inside request IDs).  A carriage return is NOT touched: written as a character
// reference it survives every parser, so it has to come back as given.
func attrSpace(s string) string {
	s = strings.ReplaceAll(s, "\n", " ")
	return strings.ReplaceAll(s, "\t", " ")
}

type decoded struct {
	xml        []byte
	root       *samlwire.Node
	id         string
	relay      string // as a receiver reads it (post: DOM value)
	relaySeen  bool
	postFields [][2]string
	// dest: the destination (one of destinations()) the wire form points at
	dest string
}

func decodeRedirect(c Conf, m Msg, wire string) (*decoded, string) {
	w := urlw.Split(wire)
	chosen := ""
	for _, cand := range destinations(c, m) {
		if urlw.Split(cand).Base == w.Base {
			chosen = cand
			break
		}
	}
	if chosen == "" {
		return nil, fmt.Sprintf("redirect URL %q does not start with the configured endpoint %q", wire, destinations(c, m))
	}
	ep := urlw.Split(chosen)
	if w.HasFragment != ep.HasFragment || w.Fragment != ep.Fragment {
		return nil, fmt.Sprintf("redirect URL carries fragment %q (endpoint: %q): everything after '#' never reaches the IdP\n  url: %s", w.Fragment, ep.Fragment, wire)
	}
	if i := urlw.BadQueryOctet(w.RawQuery); i >= 0 {
		return nil, fmt.Sprintf("redirect query contains octet %q at offset %d, which RFC 3986 does not allow in a query (unescaped)\n  query: %q", w.RawQuery[i], i, w.RawQuery)
	}
	ps, err := urlw.ParseQuery(w.RawQuery, true)
	if err != nil {
		return nil, fmt.Sprintf("redirect query does not decode: %v\n  query: %q", err, w.RawQuery)
	}
	mine, other := paramOf(m)
	if v := urlw.Get(ps, mine); len(v) != 1 {
		return nil, fmt.Sprintf("redirect query has %d %s parameters, want exactly 1\n  query: %q", len(v), mine, w.RawQuery)
	}
	if v := urlw.Get(ps, other); len(v) != 0 {
		return nil, fmt.Sprintf("redirect query has an unexpected %s parameter\n  query: %q", other, w.RawQuery)
	}
	d := &decoded{dest: chosen}
	rs := urlw.Get(ps, "RelayState")
	switch {
	case m.RelayState == "" && len(rs) == 0:
	case m.RelayState == "" && len(rs) == 1 && rs[0] == "":
		d.relaySeen = true
	case len(rs) != 1:
		return nil, fmt.Sprintf("relay state %q: redirect query has %d RelayState parameters, want exactly 1\n  query: %q", m.RelayState, len(rs), w.RawQuery)
	case rs[0] != m.RelayState:
		return nil, fmt.Sprintf("relay state %q reads back as %q from the redirect query\n  query: %q", m.RelayState, rs[0], w.RawQuery)
	default:
		d.relay, d.relaySeen = rs[0], true
	}
	// pre-existing parameters of the endpoint must all still be there, nothing else may be
	eps, err := urlw.ParseQuery(ep.RawQuery, true)
	if err != nil {
		return nil, "" // harness: generated endpoint query is always clean
	}
	want, _ := urlw.Without(eps)
	got, _ := urlw.Without(ps, mine, "RelayState", "SigAlg", "Signature")
	if !reflect.DeepEqual(want, got) && !(len(want) == 0 && len(got) == 0) {
		return nil, fmt.Sprintf("parameters besides the SAML ones are %v, the endpoint had %v (injected, lost or altered)\n  query: %q", got, want, w.RawQuery)
	}
	if n := len(urlw.Get(ps, "SigAlg")); n > 1 {
		return nil, fmt.Sprintf("%d SigAlg parameters\n  query: %q", n, w.RawQuery)
	}
	if n := len(urlw.Get(ps, "Signature")); n > 1 {
		return nil, fmt.Sprintf("%d Signature parameters\n  query: %q", n, w.RawQuery)
	}
	d.xml, err = samlwire.RedirectPayload(urlw.Get(ps, mine)[0])
	if err != nil {
		return nil, fmt.Sprintf("%s parameter does not decode (base64 + inflate): %v", mine, err)
	}
	return d, ""
}

func decodePost(c Conf, m Msg, page string) (*decoded, string) {
	doc, err := htmlw.Parse([]byte(page))
	if err != nil {
		return nil, fmt.Sprintf("POST page does not parse as HTML: %v", err)
	}
	forms := htmlw.Forms(doc)
	if len(forms) != 1 {
		return nil, fmt.Sprintf("POST page has %d forms, want 1\n  page: %q", len(forms), page)
	}
	f := forms[0]
	ep := ""
	for _, cand := range destinations(c, m) {
		if f.Action == cand || urlw.UnescapeLenient(f.Action, false) == urlw.UnescapeLenient(cand, false) {
			ep = cand
			break
		}
	}
	if ep == "" {
		return nil, fmt.Sprintf("form action is %q, configured destination is %q", f.Action, destinations(c, m))
	}
	if !strings.EqualFold(f.Method, "post") {
		return nil, fmt.Sprintf("form method is %q", f.Method)
	}
	mine, other := paramOf(m)
	if v := f.Field(mine); len(v) != 1 {
		return nil, fmt.Sprintf("form has %d %s fields, want exactly 1\n  page: %q", len(v), mine, page)
	}
	if v := f.Field(other); len(v) != 0 {
		return nil, fmt.Sprintf("form has an unexpected %s field", other)
	}
	rs := f.Field("RelayState")
	if len(rs) != 1 {
		return nil, fmt.Sprintf("form has %d RelayState fields, want exactly 1\n  page: %q", len(rs), page)
	}
	// CR / CR LF in literal attribute text are read as LF by every HTML parser
	// (input-stream preprocessing) - a property of HTML, not of the emitter.
	if htmlw.HTMLNormalize(rs[0]) != htmlw.HTMLNormalize(m.RelayState) {
		return nil, fmt.Sprintf("relay state %q reads back as %q from the form field", m.RelayState, rs[0])
	}
	d := &decoded{relay: rs[0], relaySeen: true, dest: ep}
	for _, in := range f.Inputs {
		if in.Name != "" {
			d.postFields = append(d.postFields, [2]string{in.Name, in.Value})
		} else if in.Type != "submit" {
			return nil, fmt.Sprintf("form has a nameless %s control of type %q", in.Tag, in.Type)
		}
	}
	for _, pf := range d.postFields {
		if pf[0] != mine && pf[0] != "RelayState" {
			return nil, fmt.Sprintf("form has an extra field %q", pf[0])
		}
	}
	d.xml, err = samlwire.B64(f.Field(mine)[0])
	if err != nil {
		return nil, fmt.Sprintf("%s field does not base64-decode: %v", mine, err)
	}
	return d, ""
}

var rootName = map[string]string{"authn": "AuthnRequest", "logoutreq": "LogoutRequest", "logoutresp": "LogoutResponse"}

func isTrue(s string) bool  { return s == "true" || s == "1" }
func isFalse(s string) bool { return s == "false" || s == "0" }

// checkXML compares the decoded message with the configuration.
func checkXML(c Conf, p *parties, m Msg, d *decoded) string {
	root, err := samlwire.ParseXML(d.xml)
	if err != nil {
		return fmt.Sprintf("decoded message is not well-formed XML: %v\n  xml: %q", err, d.xml)
	}
	d.root = root
	if root.Space != samlwire.NSProtocol || root.Local != rootName[m.Type] {
		return fmt.Sprintf("decoded root is {%s}%s, want samlp:%s", root.Space, root.Local, rootName[m.Type])
	}
	d.id = root.AttrOr("ID")
	if d.id == "" {
		return "message has no ID"
	}
	if v := root.AttrOr("Version"); v != "2.0" {
		return fmt.Sprintf("Version is %q", v)
	}
	if v := root.AttrOr("Destination"); v != d.dest {
		return fmt.Sprintf("Destination is %q, but the message is delivered to %q (configured: %q)", v, d.dest, destinations(c, m))
	}
	iss, err := root.Kid(samlwire.NSAssertion, "Issuer")
	if err != nil || iss == nil {
		return fmt.Sprintf("Issuer missing or repeated (%v)", err)
	}
	if iss.Text != p.issuer {
		return fmt.Sprintf("Issuer is %q, configured %q", iss.Text, p.issuer)
	}
	switch m.Type {
	case "authn":
		if v := root.AttrOr("AssertionConsumerServiceURL"); v != c.AcsURL {
			return fmt.Sprintf("AssertionConsumerServiceURL is %q, configured %q", v, c.AcsURL)
		}
		pol, err := root.Kid(samlwire.NSProtocol, "NameIDPolicy")
		if err != nil {
			return err.Error()
		}
		format, has := "", false
		if pol != nil {
			format, has = pol.Attr("Format")
		}
		switch c.NameIDFormat {
		case "": // library default (documented back-compat: transient); not judged
		case string(saml.UnspecifiedNameIDFormat): // absent == unspecified (saml-core 3.4.1.1)
			if has && format != c.NameIDFormat {
				return fmt.Sprintf("NameIDPolicy Format is %q, configured unspecified", format)
			}
		default:
			if format != c.NameIDFormat {
				return fmt.Sprintf("NameIDPolicy Format is %q (present=%v), configured %q", format, has, c.NameIDFormat)
			}
		}
		fa, has := root.Attr("ForceAuthn")
		switch {
		case c.ForceAuthn == nil && has:
			return fmt.Sprintf("ForceAuthn=%q although not configured", fa)
		case c.ForceAuthn != nil && *c.ForceAuthn && !isTrue(fa), c.ForceAuthn != nil && !*c.ForceAuthn && !(isFalse(fa) || !has):
			return fmt.Sprintf("ForceAuthn=%q (present=%v), configured %v", fa, has, *c.ForceAuthn)
		}
		rac, err := root.Kid(samlwire.NSProtocol, "RequestedAuthnContext")
		if err != nil {
			return err.Error()
		}
		if (rac != nil) != (c.AuthnCtx != nil) {
			return fmt.Sprintf("RequestedAuthnContext present=%v, configured=%v", rac != nil, c.AuthnCtx != nil)
		}
		if rac != nil {
			if v := rac.AttrOr("Comparison"); v != c.AuthnCtx.Comparison {
				return fmt.Sprintf("RequestedAuthnContext Comparison is %q, configured %q", v, c.AuthnCtx.Comparison)
			}
			ref, err := rac.Kid(samlwire.NSAssertion, "AuthnContextClassRef")
			if err != nil || ref == nil {
				return fmt.Sprintf("AuthnContextClassRef missing or repeated (%v)", err)
			}
			if ref.Text != c.AuthnCtx.ClassRef {
				return fmt.Sprintf("AuthnContextClassRef is %q, configured %q", ref.Text, c.AuthnCtx.ClassRef)
			}
		}
	case "logoutreq":
		nid, err := root.Kid(samlwire.NSAssertion, "NameID")
		if err != nil || nid == nil {
			return fmt.Sprintf("NameID missing or repeated (%v)", err)
		}
		if nid.Text != m.NameID {
			return fmt.Sprintf("NameID is %q, given %q", nid.Text, m.NameID)
		}
	case "logoutresp":
		if v := root.AttrOr("InResponseTo"); attrSpace(v) != attrSpace(m.RequestID) {
			return fmt.Sprintf("InResponseTo is %q, given request ID %q", v, m.RequestID)
		}
	}
	return ""
}

func formEncode(s string) string {
	var b strings.Builder
	for i := 0; i < len(s); i++ {
		c := s[i]
		if c >= 'a' && c <= 'z' || c >= 'A' && c <= 'Z' || c >= '0' && c <= '9' || c == '-' || c == '_' || c == '.' || c == '~' {
			b.WriteByte(c)
		} else {
			fmt.Fprintf(&b, "%%%02X", c)
		}
	}
	return b.String()
}

// idpAccepts plays the user agent: it delivers the emitted message to the library
// IdP and requires Validate to succeed and report the same relay state and ID.
func idpAccepts(c Conf, p *parties, m Msg, e emitted, d *decoded) string {
	var r *http.Request
	if m.Binding == "redirect" {
		w := urlw.Split(e.wire) // a user agent does not send the fragment
		target := w.Base
		if w.HasQuery {
			target += "?" + w.RawQuery
		}
		u, err := url.Parse(target)
		if err != nil {
			return fmt.Sprintf("the IdP side cannot parse the redirect URL: %v", err)
		}
		r = &http.Request{Method: "GET", URL: u, Header: http.Header{}, Host: u.Host, RequestURI: u.RequestURI()}
	} else {
		var parts []string
		for _, pf := range d.postFields {
			parts = append(parts, formEncode(pf[0])+"="+formEncode(pf[1]))
		}
		w := urlw.Split(c.IDPSSO)
		target := w.Base
		if w.HasQuery {
			target += "?" + w.RawQuery
		}
		r = httptest.NewRequest("POST", target, strings.NewReader(strings.Join(parts, "&")))
		r.Header.Set("Content-Type", "application/x-www-form-urlencoded")
	}
	var req *saml.IdpAuthnRequest
	var err error
	var pan any
	func() {
		defer func() { pan = recover() }()
		req, err = saml.NewIdpAuthnRequest(p.idp, r)
		if err == nil {
			err = req.Validate()
		}
	}()
	if pan != nil {
		return fmt.Sprintf("the library IdP panics on the SP's own request: %v", pan)
	}
	if err != nil {
		return fmt.Sprintf("the library IdP rejects the SP's own request: %v\n  wire: %q", err, trunc(e.wire))
	}
	if htmlw.HTMLNormalize(req.RelayState) != htmlw.HTMLNormalize(m.RelayState) {
		return fmt.Sprintf("the library IdP reports relay state %q, the SP was given %q\n  wire: %q", req.RelayState, m.RelayState, trunc(e.wire))
	}
	if req.Request.ID != d.id {
		return fmt.Sprintf("the library IdP reads request ID %q, the wire form says %q", req.Request.ID, d.id)
	}
	if req.ACSEndpoint == nil || req.ACSEndpoint.Location != c.AcsURL {
		return fmt.Sprintf("the library IdP selected ACS %+v, configured %q", req.ACSEndpoint, c.AcsURL)
	}
	if req.ServiceProviderMetadata == nil || req.ServiceProviderMetadata.EntityID != p.issuer {
		return "the library IdP resolved another service provider"
	}
	return ""
}

func trunc(s string) string {
	if len(s) > 700 {
		return s[:700] + "..."
	}
	return s
}

// needsEscaping reports whether a correct redirect encoder has to change s.
func needsEscaping(s string) bool {
	for i := 0; i < len(s); i++ {
		c := s[i]
		if !(c >= 'a' && c <= 'z' || c >= 'A' && c <= 'Z' || c >= '0' && c <= '9' || c == '-' || c == '_' || c == '.' || c == '~') {
			return true
		}
	}
	return false
}

func interesting(s string) bool {
	if len(s) > 80 {
		return true
	}
	for _, r := range s {
		if r > 0x7e || r < 0x20 || strings.ContainsRune("&=#+%?;/ \"'<>", r) {
			return true
		}
	}
	return false
}

// ---------------------------------------------------------------- check

func fail(classes []string, f string, a ...any) pbt.Result {
	return pbt.Result{Err: fmt.Sprintf(f, a...), NonTrivial: true, Classes: classes}
}

func check(c Case) pbt.Result {
	if len(c.Msgs) == 0 {
		return pbt.Result{Skip: true}
	}
	exclRelay := os.Getenv("VERIF_EXCLUDE_RELAYSTATE_UNESCAPED") == "1"
	var classes []string
	add := func(s string) {
		for _, x := range classes {
			if x == s {
				return
			}
		}
		classes = append(classes, s)
	}
	p, err := build(c.Conf)
	if err != nil {
		return fail([]string{"build"}, "%v", err)
	}
	var rec *recReader
	if !c.DefaultRand {
		src, _ := hex.DecodeString(c.Rand)
		rec = &recReader{src: src, chunk: c.Chunk, flipAt: -1}
		saml.RandReader = rec
		add("rand:recorded")
	} else {
		add("rand:default")
	}
	if c.Conf.SigMethod != "" {
		add("signing:on")
	} else {
		add("signing:off")
	}
	if c.Conf.EntityID == "" {
		add("entity:fallback")
	}
	if len(c.Msgs) >= 2 {
		add("sequence")
	}
	nontrivial := len(c.Msgs) >= 2

	type made struct {
		id       string
		from, to int
	}
	// one record per creation; nothing is judged before the whole sequence has been created
	type record struct {
		m        Msg
		eff      Conf // configuration in force at creation
		issuer   string
		reg      *spStub // what the IdP knows about the SP at that moment
		e        emitted
		from, to int
	}
	var recs []record
	eff := c.Conf
	for i, m := range c.Msgs {
		add(m.Type + "/" + m.Binding)
		if m.Set != nil {
			add("config-changed-between-calls")
			nontrivial = true
		}
		var err error
		if eff, err = apply(p, eff, m.Set); err != nil {
			return fail(classes, "message %d: %v", i, err)
		}
		ep := endpointOf(eff, m)
		if strings.Contains(ep, "?") {
			add("endpoint:query")
			nontrivial = true
		}
		if strings.Contains(ep, "#") {
			add("endpoint:fragment")
		}
		if interesting(m.RelayState) || interesting(m.NameID) || interesting(m.RequestID) {
			nontrivial = true
		}
		if strings.ContainsRune(m.NameID+m.RequestID+eff.EntityID, '\r') {
			add("content:CR")
		}
		switch {
		case m.RelayState == "":
			add("relay:empty")
		case len(m.RelayState) > 80:
			add("relay:>80")
		case needsEscaping(m.RelayState):
			add("relay:meta")
		default:
			add("relay:plain")
		}
		from := 0
		if rec != nil {
			from = rec.off
		}
		e := create(p, m)
		to := from
		if rec != nil {
			to = rec.off
		}
		if e.pan != nil {
			return fail(classes, "message %d (%s/%s, relay state %q): creation panics: %v", i, m.Type, m.Binding, m.RelayState, e.pan)
		}
		if e.err != nil {
			return fail(classes, "message %d (%s/%s, relay state %q): creation fails: %v", i, m.Type, m.Binding, m.RelayState, e.err)
		}
		reg := p.reg
		if reg == nil {
			reg = p.stub
		}
		recs = append(recs, record{m: m, eff: eff, issuer: p.issuer, reg: &spStub{id: reg.id, md: reg.md}, e: e, from: from, to: to})
	}
	if c.Conf.IDPLayout != "" {
		add("idp-layout:" + c.Conf.IDPLayout)
	}

	// ---- every returned value is judged now, after all later calls have been made
	var all []made
	for i := range recs {
		r := &recs[i]
		m := r.m
		where := fmt.Sprintf("message %d of %d (%s/%s, relay state %q)", i, len(recs), m.Type, m.Binding, m.RelayState)
		r.e.wire = r.e.now()
		if r.e.wire != r.e.wire0 {
			return fail(classes, "%s: the value returned by this call changed while later messages were created\n  at creation: %q\n  now:         %q", where, trunc(r.e.wire0), trunc(r.e.wire))
		}
		skipMsg := exclRelay && m.Type == "authn" && m.Binding == "redirect" && needsEscaping(m.RelayState)
		if skipMsg {
			// development aid: the whole message is left unjudged (see the report)
			add("excluded:relaystate-unescaped")
			all = append(all, made{id: fmt.Sprintf("?%d", i), from: r.from, to: r.to})
			continue
		}
		p.issuer = r.issuer
		p.stub.id, p.stub.md = r.reg.id, r.reg.md
		p.idp.SSOURL = mustURL(r.eff.IDPSSO)
		var d *decoded
		var msg string
		if m.Binding == "redirect" {
			d, msg = decodeRedirect(r.eff, m, r.e.wire)
		} else {
			d, msg = decodePost(r.eff, m, r.e.wire)
		}
		if msg != "" {
			return fail(classes, "%s: %s", where, msg)
		}
		if msg = checkXML(r.eff, p, m, d); msg != "" {
			return fail(classes, "%s: %s", where, msg)
		}
		if m.Type == "authn" {
			if msg = idpAccepts(r.eff, p, m, r.e, d); msg != "" {
				return fail(classes, "%s: %s", where, msg)
			}
			add("idp:accepted")
		}
		all = append(all, made{id: d.id, from: r.from, to: r.to})
	}

	// ---- ID freshness
	for i, a := range all {
		if strings.HasPrefix(a.id, "?") {
			continue
		}
		if rec != nil && a.to-a.from < 16 {
			return fail(classes, "message %d: its creation drew only %d octets from the configured random source (ID %q): fewer than 128 bits", i, a.to-a.from, a.id)
		}
		for j := 0; j < i; j++ {
			b := all[j]
			if a.id != b.id {
				continue
			}
			if rec == nil {
				return fail(classes, "messages %d and %d have the same ID %q with the default random source", j, i, a.id)
			}
			if !bytes.Equal(rec.window(a.from, a.from+16), rec.window(b.from, b.from+16)) {
				return fail(classes, "messages %d and %d have the same ID %q although the random source gave them different octets (%x vs %x)", j, i, a.id, rec.window(b.from, b.to), rec.window(a.from, a.to))
			}
		}
	}
	// ---- derivation: same octets -> same ID; one inverted bit among the first 16 octets -> another ID
	if rec != nil && !strings.HasPrefix(all[0].id, "?") {
		m := c.Msgs[0]
		_ = recs[0].eff
		rerun := func(flipAt, flipBit int) (string, string) {
			fix.Reset()
			src, _ := hex.DecodeString(c.Rand)
			saml.RandReader = &recReader{src: src, chunk: c.Chunk, flipAt: flipAt, flipBit: flipBit}
			e := create(p, m) // the parties hold no state; only the random source differs
			if e.pan != nil || e.err != nil {
				return "", fmt.Sprintf("re-run fails: %v %v", e.pan, e.err)
			}
			var d *decoded
			if m.Binding == "redirect" {
				// only the payload is needed here; relay-state defects are reported above
				w := urlw.Split(e.wire)
				ps, _ := urlw.ParseQuery(w.RawQuery, true)
				mine, _ := paramOf(m)
				v := urlw.Get(ps, mine)
				if len(v) == 0 {
					return "", "re-run: no payload"
				}
				x, err := samlwire.RedirectPayload(v[0])
				if err != nil {
					return "", "re-run: " + err.Error()
				}
				d = &decoded{xml: x}
			} else {
				doc, err := htmlw.Parse([]byte(e.wire))
				if err != nil {
					return "", "re-run: " + err.Error()
				}
				mine, _ := paramOf(m)
				var v []string
				for _, f := range htmlw.Forms(doc) {
					v = append(v, f.Field(mine)...)
				}
				if len(v) != 1 {
					return "", "re-run: no payload"
				}
				x, err := samlwire.B64(v[0])
				if err != nil {
					return "", "re-run: " + err.Error()
				}
				d = &decoded{xml: x}
			}
			root, err := samlwire.ParseXML(d.xml)
			if err != nil {
				return "", "re-run: " + err.Error()
			}
			return root.AttrOr("ID"), ""
		}
		same, msg := rerun(-1, 0)
		if msg != "" {
			return fail(classes, "message 0: %s", msg)
		}
		if same != all[0].id {
			return fail(classes, "message 0: the same random octets gave ID %q and then %q: the ID is not derived from the random source alone", all[0].id, same)
		}
		flipAt, flipBit := all[0].from+(c.Flip/8)%16, c.Flip%8
		other, msg := rerun(flipAt, flipBit)
		if msg != "" {
			return fail(classes, "message 0: %s", msg)
		}
		if other == all[0].id {
			return fail(classes, "message 0: inverting bit %d of octet %d drawn from the random source leaves the ID %q unchanged: not all of the first 128 bits enter the ID", flipBit, c.Flip/8%16, other)
		}
		add("derivation:flip")
	}
	_ = io.EOF
	return pbt.Result{NonTrivial: nontrivial, Classes: classes}
}

// ---------------------------------------------------------------- exhaustive parts

func baseConf() Conf {
	return Conf{
		MetadataURL: "https://sp.example.com/saml/metadata", AcsURL: "https://sp.example.com/saml/acs", SloURL: "https://sp.example.com/saml/slo",
		IDPMetadataURL: "https://idp.example.org/metadata", IDPSSO: "https://idp.example.org/sso",
		IDPSLORedirect: "https://idp.example.org/slo", IDPSLOPost: "https://idp.example.org/slo-post", Key: "sp",
	}
}

var fixedRand = "000102030405060708090a0b0c0d0e0f101112131415161718191a1b1c1d1e1f"

// enumFlips: every one of the 128 bits of the first 16 octets, for each message type and binding.
func enumFlips(_ string, emit func(Case)) {
	for _, ty := range []string{"authn", "logoutreq", "logoutresp"} {
		for _, b := range []string{"redirect", "post"} {
			for bit := 0; bit < 128; bit++ {
				emit(Case{Conf: baseConf(), Msgs: []Msg{{Type: ty, Binding: b, RelayState: "rs", NameID: "u@example.com", RequestID: "id-1"}}, Rand: fixedRand, Chunk: 64, Flip: bit})
			}
		}
	}
}

// enumRelayBytes: every single octet 0x01..0x7f as a relay state, alone and
// between two letters, through every message type and binding, against an
// endpoint without and with a query.
func enumRelayBytes(_ string, emit func(Case)) {
	for _, sso := range []string{"https://idp.example.org/sso", "https://idp.example.org/sso?tenant=1&x=a%20b"} {
		for _, ty := range []string{"authn", "logoutreq", "logoutresp"} {
			for _, b := range []string{"redirect", "post"} {
				for ch := 1; ch < 0x80; ch++ {
					for _, rs := range []string{string(rune(ch)), "a" + string(rune(ch)) + "b"} {
						cf := baseConf()
						cf.IDPSSO, cf.IDPSLORedirect, cf.IDPSLOPost = sso, strings.Replace(sso, "/sso", "/slo", 1), strings.Replace(sso, "/sso", "/slo-post", 1)
						emit(Case{Conf: cf, Msgs: []Msg{{Type: ty, Binding: b, RelayState: rs, NameID: "u@example.com", RequestID: "id-1"}}, Rand: fixedRand, Chunk: 64})
					}
				}
			}
		}
	}
}

var kinds = [][2]string{{"authn", "redirect"}, {"authn", "post"}, {"logoutreq", "redirect"}, {"logoutreq", "post"}, {"logoutresp", "redirect"}, {"logoutresp", "post"}}

// enumPairs: every ordered pair (and a few triples) of message kinds created on one SP, each with
// its own relay state / name ID / request ID; all results are judged after the last creation.
func enumPairs(_ string, emit func(Case)) {
	mk := func(k [2]string, n int) Msg {
		return Msg{Type: k[0], Binding: k[1], RelayState: fmt.Sprintf("relay-%d?return=/a&b=c d+e", n), NameID: fmt.Sprintf("user%d@example.com", n), RequestID: fmt.Sprintf("id-req-%d", n)}
	}
	for _, a := range kinds {
		for _, b := range kinds {
			emit(Case{Conf: baseConf(), Msgs: []Msg{mk(a, 0), mk(b, 1)}, Rand: fixedRand + fixedRand, Chunk: 64})
			for _, c3 := range kinds[:2] {
				emit(Case{Conf: baseConf(), Msgs: []Msg{mk(a, 0), mk(b, 1), mk(c3, 2)}, Rand: fixedRand + fixedRand + fixedRand, Chunk: 64, Flip: 77})
			}
		}
	}
	// the same with signing on and a configuration change in between
	cf := baseConf()
	cf.SigMethod = dsig.RSASHA256SignatureMethod
	yes := "true"
	for _, a := range kinds {
		for _, b := range kinds {
			m2 := mk(b, 1)
			m2.Set = &Set{ForceAuthn: yes}
			emit(Case{Conf: cf, Msgs: []Msg{mk(a, 0), m2}, Rand: fixedRand + fixedRand, Chunk: 20})
		}
	}
}

// enumLayouts: every IdP metadata layout x every message kind (signing off and on), plus a sequence
// of all six kinds on one SP per layout.
func enumLayouts(_ string, emit func(Case)) {
	for _, layout := range idpLayouts {
		for si, sig := range []string{"", dsig.RSASHA256SignatureMethod, dsig.RSASHA1SignatureMethod} {
			cf := baseConf()
			cf.IDPLayout, cf.SigMethod = layout, sig
			cf.RespLoc = []string{"", "other", "same"}[si]
			cf.IDPSSO = "https://idp.example.org/sso?tenant=1"
			var seq []Msg
			for i, k := range kinds {
				m := Msg{Type: k[0], Binding: k[1], RelayState: fmt.Sprintf("rs&%d", i), NameID: "u@example.com", RequestID: "id-1"}
				emit(Case{Conf: cf, Msgs: []Msg{m}, Rand: fixedRand, Chunk: 64})
				seq = append(seq, m)
			}
			emit(Case{Conf: cf, Msgs: seq, Rand: strings.Repeat(fixedRand, 6), Chunk: 64})
		}
	}
}

// enumIDPRefresh: on one SP, every message kind, then the IdP metadata refreshed (new pointer / in place /
// descriptors replaced; new endpoints and another layout), then every message kind again, and back.
func enumIDPRefresh(_ string, emit func(Case)) {
	for _, mode := range []string{"pointer", "inplace", "descriptors"} {
		for _, layout := range []string{"", "later-descriptor", "duplicates"} {
			for _, sig := range []string{"", dsig.RSASHA256SignatureMethod} {
				for _, k := range kinds {
					cf := baseConf()
					cf.SigMethod = sig
					first := Msg{Type: k[0], Binding: k[1], RelayState: "before", NameID: "u@example.com", RequestID: "id-1"}
					var msgs []Msg
					msgs = append(msgs, first)
					for i, k2 := range kinds {
						m := Msg{Type: k2[0], Binding: k2[1], RelayState: fmt.Sprintf("after-%d", i), NameID: "u@example.com", RequestID: "id-2"}
						if i == 0 {
							m.Set = &Set{IDP: &IDPChange{Mode: mode, SSO: "https://new-idp.example.net/sso?v=2", SLORedirect: "https://new-idp.example.net/slo", SLOPost: "https://new-idp.example.net/slo-post", Layout: layout}}
						}
						msgs = append(msgs, m)
					}
					back := first
					back.RelayState = "back"
					back.Set = &Set{IDP: &IDPChange{Mode: mode, SSO: cf.IDPSSO, SLORedirect: cf.IDPSLORedirect, SLOPost: cf.IDPSLOPost}}
					msgs = append(msgs, back)
					emit(Case{Conf: cf, Msgs: msgs, Rand: strings.Repeat(fixedRand, len(msgs)), Chunk: 64})
				}
			}
		}
	}
}

// enumCR: carriage returns in every text- and attribute-position content, on every message kind,
// with every IdP metadata layout.
func enumCR(_ string, emit func(Case)) {
	for _, layout := range []string{"", "decoys", "later-descriptor"} {
		for _, v := range []string{"CN=Jane Doe\r\nOU=People", "trailing\r", "\rleading", "a\rb", "\r"} {
			for _, k := range kinds {
				cf := baseConf()
				cf.IDPLayout = layout
				emit(Case{Conf: cf, Msgs: []Msg{{Type: k[0], Binding: k[1], RelayState: "rs", NameID: v, RequestID: v}}, Rand: fixedRand, Chunk: 64})
				cf.EntityID = "urn:sp:" + v
				cf.AuthnCtx = &Ctx{Comparison: "exact", ClassRef: "urn:ctx:" + v}
				emit(Case{Conf: cf, Msgs: []Msg{{Type: k[0], Binding: k[1], RelayState: v, NameID: "u", RequestID: "id-1"}}, Rand: fixedRand, Chunk: 64})
			}
		}
	}
}

var prop = &pbt.Prop[Case]{
	ID: "C12",
	Rule: "cases: SP/IdP configurations (entity ID set/unset/markup-bearing, endpoints with and without query and fragment, signing off / RSA / ECDSA with each method, every NameID format, ForceAuthn, RequestedAuthnContext) x IdP metadata layouts (one or several IDPSSODescriptors, endpoint order, other bindings first, the binding in use only in a later descriptor, duplicate endpoints) x sequences of 1..20 creations of AuthnRequest / LogoutRequest / LogoutResponse in the redirect and POST bindings on ONE ServiceProvider value, optionally with configuration changes between calls, all results kept and judged after the last call x relay states (empty, plain, URL metacharacters, URLs, >80 bytes, control characters, hostile XML/HTML tokens, non-ASCII) x name IDs / request IDs over XML-1.0 strings x a recording random source fed with drawn octets (or the default source). " +
		"oracle: own query splitter / HTML DOM / base64+inflate / XML token reader recover exactly one payload and one byte-equal RelayState, pre-existing parameters intact, no fragment introduced, message fields equal the configuration; the library IdP (registered with the SP's published metadata) validates every AuthnRequest and reports the same relay state and ID; every creation draws >= 16 octets, IDs are pairwise distinct, re-running with the same octets gives the same ID and inverting one bit of the first 16 octets changes it. " +
		"non-trivial: a relay state / name ID / request ID with a URL or HTML metacharacter, a non-ASCII or control rune or more than 80 bytes, or an endpoint that already has a query, or a sequence of >= 2 creations. distinct: sha256 of the JSON case.",
	Gen:   gen,
	Check: check,
	Reset: fix.Reset,
	Enums: []pbt.Enum[Case]{
		{Name: "id-bit-flips-128x3x2", Each: enumFlips},
		{Name: "relay-state-single-octets-0x01..0x7f", Each: enumRelayBytes},
		{Name: "message-kind-pairs-judged-after-the-sequence", Each: enumPairs},
		{Name: "carriage-return-contents-x-kinds-x-idp-layouts", Each: enumCR},
		{Name: "idp-metadata-layouts-x-message-kinds", Each: enumLayouts},
		{Name: "idp-metadata-refreshed-between-messages", Each: enumIDPRefresh},
	},
	Assumptions: []string{
		"'+' in a query component is read as a space (application/x-www-form-urlencoded, what every mainstream receiver does); see internal/urlw",
		"pre-existing endpoint queries are drawn from octets all readers agree on (no ';' separators, no malformed percent escapes); they are compared after decoding, as a key -> ordered values multimap",
		"endpoint queries never contain parameters called SAMLRequest, SAMLResponse, RelayState, SigAlg or Signature",
		"name IDs and request IDs are XML-1.0-representable strings (DESIGN 2.6); name ID, issuer and class reference (text positions) must come back exactly, carriage returns included, on every binding; the request ID (attribute position) must come back exactly except that a literal TAB / LF may read as a space (XML 3.3.3; property silent) - a carriage return must survive there too; relay states are any valid UTF-8 without NUL",
		"results are judged only after the whole sequence has been created: every []byte / *url.URL a call returned is kept, compared with a copy taken at creation time, and decoded then",
		"between two creations the application may change public fields of the one ServiceProvider value (EntityID, AuthnNameIDFormat, ForceAuthn, RequestedAuthnContext) and refresh the IdP metadata it holds (new pointer, overwritten in place, descriptors replaced: new endpoints, another layout; the library IdP moves along); each message must reflect the configuration in force when it was created (the IdP is re-registered with the SP's then-current metadata)",
		"the SP's copy of the IdP metadata is laid out by the harness (idpSpec): one or several IDPSSODescriptors, either endpoint order, endpoints of other bindings, the binding in use only in a later descriptor, several endpoints of one binding; the configured destination is the first endpoint of the requested binding in document order over all descriptors; every layout offers every binding",
		"IdP endpoints carry no / an equal / a different ResponseLocation: requests must go to Location; for a LogoutResponse either Location or ResponseLocation is accepted (property silent), but URL / form action and the Destination attribute must name the same one",
		"LogoutBindings, AllowIDPInitiated, MetadataValidDuration and DefaultRedirectURI are varied and never judged",
		"POST forms: the relay state is compared with the DOM value modulo the HTML parser's own CR -> LF rewriting of literal attribute text",
		"an empty relay state may be emitted as no RelayState parameter or as one empty parameter (both read back as empty)",
		"AuthnNameIDFormat \"\" (library default) is not judged; 'unspecified' may be emitted as an absent Format",
		"ID distinctness under the recording source is required only between creations whose first 16 drawn octets differ",
	},
}

func TestCheck(t *testing.T) { pbt.Run(t, prop) }

func FuzzCheck(f *testing.F) { pbt.Fuzz(f, prop) }
