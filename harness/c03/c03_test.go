// Package c03: the SP accepts only assertions addressed to it by its configured IdP.
package c03

import (
	"errors"
	"fmt"
	"sort"
	"strings"
	"testing"

	"github.com/crewjam/saml"
	"pgregory.net/rapid"

	"verif/harness/internal/fix"
	"verif/harness/internal/forge"
	"verif/harness/internal/pbt"
	"verif/harness/internal/spkit"
	"verif/harness/internal/xgen"
)

// Field is one addressed field: its class and, for near-misses, the kind.
type Field struct {
	Class string `json:"class"` // correct | wrong | near | alt | empty | absent | nodata (recipients only: the confirmation has no SubjectConfirmationData)
	Kind  string `json:"kind,omitempty"`
}

// Case is one response whose addressing fields are drawn from classes.
type Case struct {
	RespIssuer  Field    `json:"resp_issuer"`
	AsrtIssuer  Field    `json:"asrt_issuer"`
	Recipients  []Field  `json:"recipients"`                // one per subject confirmation
	Audiences   []Field  `json:"audiences"`                 // 0..3
	OneRestr    bool     `json:"one_restriction,omitempty"` // all audiences inside one AudienceRestriction
	Destination Field    `json:"destination"`
	DestIsAt    bool     `json:"dest_is_received_at,omitempty"` // class correct means: equals the received-at URL (not the ACS URL)
	Status      string   `json:"status"`                        // success | requester | responder | versionmismatch | authnfailed | nested | success-nested | empty | absent
	RespSigned  bool     `json:"resp_signed"`
	AsrtSigned  bool     `json:"asrt_signed"`
	NoEntityID  bool     `json:"no_entity_id,omitempty"`
	Validator   string   `json:"validator,omitempty"` // "" | accept | reject | own
	ReceivedAt  string   `json:"received_at"`         // acs | other | acsquery
	Entry       string   `json:"entry"`               // xml | post | artifact
	Encrypted   bool     `json:"encrypted,omitempty"`
	Methods     []string `json:"methods,omitempty"`             // per confirmation: "" = bearer | hok | sv
	AllowIDP    bool     `json:"allow_idp_initiated,omitempty"` // addressing must hold whether or not IdP-initiated login is allowed
	// Trust: the SP's trust configuration ("" = meta1; every configuration trusts the signing key used here).
	// Warm: the same ServiceProvider value has processed an ordinary valid login before this message.
	Trust string `json:"trust,omitempty"`
	Warm  bool   `json:"warm,omitempty"`
	// Format attribute of the Issuer elements: "" = the entity format | "-" = no attribute | literal.  Whatever
	// it says, the value must be the IdP's entity ID.
	// ReqHook: the application installed its own (accept-everything) ValidateRequestID: it replaces the request-ID
	// rule, the addressing rules hold regardless.  ArtStatus (artifact entry): status of the ArtifactResponse that
	// carries the Response ("" = Success): the carrier's own failure is a failure.  ArtIssuer: its Issuer.
	ReqHook bool `json:"req_hook,omitempty"`
	// Unsolicited: the Response and its confirmations carry no InResponseTo and no request is outstanding (what an
	// IdP-initiated login looks like); judged only when AllowIDPInitiated is on
	Unsolicited      bool   `json:"unsolicited,omitempty"`
	perm             bool   // internal: this is the audience-order permutation of another case
	ArtStatus        string `json:"art_status,omitempty"`
	ArtIssuer        *Field `json:"art_issuer,omitempty"`
	RespIssuerFormat string `json:"resp_issuer_format,omitempty"`
	AsrtIssuerFormat string `json:"asrt_issuer_format,omitempty"`
	// Noise: options of the SP that concern only what it sends (see spkit.Noise); the verdict must not depend on them
	Noise uint64 `json:"noise,omitempty"`
}

func methodURI(m string) string {
	switch m {
	case "hok":
		return "urn:oasis:names:tc:SAML:2.0:cm:holder-of-key"
	case "sv":
		return "urn:oasis:names:tc:SAML:2.0:cm:sender-vouches"
	}
	return ""
}

const ownAudience = "urn:custom:audience-of-the-application"

func value(f Field, correct string) *string {
	switch f.Class {
	case "correct":
		return forge.S(correct)
	case "wrong":
		return forge.S("https://other.example.org/saml/x")
	case "near":
		m := xgen.NearMiss(correct)
		if v, ok := m[f.Kind]; ok {
			return forge.S(v)
		}
		return forge.S(correct + "x")
	case "alt":
		// another identifier of this very deployment: plausible, but not the value this field must carry
		if v, ok := alts[f.Kind]; ok && v != correct {
			return forge.S(v)
		}
		return forge.S(spkit.SPSLO + "/alt")
	case "empty":
		return forge.S("")
	}
	return nil
}

// (kind "same-path-other-host": the ACS path on another host - what a relative delivery URL must not be taken to match)
var alts = map[string]string{"same-path-other-host": "https://other-sp.example.net/saml/acs", "other-path-other-host": "https://other-sp.example.net/elsewhere/acs", "sp-metadata": spkit.SPMetadata, "sp-entity": spkit.SPEntity, "sp-acs": spkit.SPACS, "sp-slo": spkit.SPSLO, "idp-sso": spkit.IDPSSO, "idp-entity": spkit.IDPEntity}
var altKinds = []string{"sp-metadata", "sp-entity", "sp-acs", "sp-slo", "idp-sso", "idp-entity", "received-at", "same-path-other-host", "other-path-other-host"}

// valueAt is value() with the one alternative that depends on the case: "received-at" is the URL at which the
// message was delivered when that differs from the correct value (the library tolerates it as Destination;
// no other field may carry it instead of its own correct value).
func valueAt(f Field, correct, at string) *string {
	if f.Class == "alt" && f.Kind == "received-at" && at != correct {
		return forge.S(at)
	}
	return value(f, correct)
}

func receivedAt(c Case) string {
	switch c.ReceivedAt {
	case "other":
		return "https://sp.example.com/other/acs"
	case "acsquery":
		return spkit.SPACS + "?x=1"
	case "relative":
		// what a net/http server hands its handlers: the request target without scheme and host
		return "/saml/acs"
	case "relative-other":
		return "/elsewhere/acs"
	}
	return spkit.SPACS
}

var statusCodes = map[string][]string{
	"success":         {forge.StatusOK},
	"requester":       {"urn:oasis:names:tc:SAML:2.0:status:Requester"},
	"responder":       {"urn:oasis:names:tc:SAML:2.0:status:Responder"},
	"versionmismatch": {"urn:oasis:names:tc:SAML:2.0:status:VersionMismatch"},
	"authnfailed":     {"urn:oasis:names:tc:SAML:2.0:status:AuthnFailed"},
	"nested":          {"urn:oasis:names:tc:SAML:2.0:status:Responder", "urn:oasis:names:tc:SAML:2.0:status:AuthnFailed"},
	"nested-success":  {"urn:oasis:names:tc:SAML:2.0:status:Requester", forge.StatusOK},
	"success-nested":  {forge.StatusOK, "urn:oasis:names:tc:SAML:2.0:status:PartialLogout"},
	"near-success":    {forge.StatusOK + " "},
	"empty":           {""},
	"absent":          {},
}

// lastAccepted: verdict of the most recent presentation (read by the audience-order permutation).
var lastAccepted bool

// statusNames: the keys of statusCodes in a fixed order (enumerations are sharded by index).
func statusNames() []string {
	var out []string
	for k := range statusCodes {
		out = append(out, k)
	}
	sort.Strings(out)
	return out
}

func check(c Case) pbt.Result {
	now := fix.Epoch
	audience := spkit.SPEntity
	if c.NoEntityID {
		audience = spkit.SPMetadata
	}
	at := receivedAt(c)
	r := spkit.Baseline(now, "id-req", audience)
	outstanding := []string{"id-req"}
	confIRT := forge.S("id-req")
	if c.Unsolicited {
		r.InResponseTo, confIRT, outstanding = nil, nil, []string{}
	}
	r.Issuer = valueAt(c.RespIssuer, spkit.IDPEntity, at)
	r.IssuerFormat = c.RespIssuerFormat
	destCorrect := spkit.SPACS
	if c.DestIsAt {
		destCorrect = at
	}
	r.Destination = value(c.Destination, destCorrect)
	r.Status = statusCodes[c.Status]
	a := &r.Assertions[0]
	a.Issuer = valueAt(c.AsrtIssuer, spkit.IDPEntity, at)
	a.IssuerFormat = c.AsrtIssuerFormat
	a.Confirmations = nil
	for i, rf := range c.Recipients {
		m := ""
		if i < len(c.Methods) {
			m = methodURI(c.Methods[i])
		}
		a.Confirmations = append(a.Confirmations, forge.Confirmation{Method: m, Recipient: valueAt(rf, spkit.SPACS, at), InResponseTo: confIRT, NotOnOrAfter: forge.TP(now.Add(300e9)), NoData: rf.Class == "nodata"})
	}
	a.Audiences = nil
	var auds []string
	for _, af := range c.Audiences {
		correct := audience
		if c.Validator == "own" {
			correct = ownAudience
		}
		if v := valueAt(af, correct, at); v != nil {
			auds = append(auds, *v)
		}
	}
	if c.OneRestr && len(auds) > 0 {
		a.Audiences = [][]string{auds}
	} else {
		for _, v := range auds {
			a.Audiences = append(a.Audiences, []string{v})
		}
	}
	sign := &forge.SignSpec{Key: "idp"}
	if c.RespSigned {
		r.Sign = sign
	}
	if c.AsrtSigned || !c.RespSigned {
		a.Sign = sign
	}
	if c.Encrypted {
		a.Encrypt = &forge.EncSpec{To: "sp", Seed: 3}
	}
	el, err := forge.BuildResponse(&r)
	if err != nil {
		return pbt.Result{Err: "harness: " + err.Error()}
	}
	sp := spkit.NewSP(spkit.Config{Trust: c.Trust, NoEntityID: c.NoEntityID, AllowIDPInit: c.AllowIDP})
	spkit.Noise(sp, c.Noise)
	if c.Warm {
		spkit.WarmUp(sp, fix.Epoch)
	}
	if c.ReqHook {
		sp.ValidateRequestID = func(saml.Response, []string) error { return nil }
	}
	switch c.Validator {
	case "accept":
		sp.ValidateAudienceRestriction = func(*saml.Assertion) error { return nil }
	case "reject":
		sp.ValidateAudienceRestriction = func(*saml.Assertion) error { return errors.New("application says no") }
	case "own":
		sp.ValidateAudienceRestriction = func(as *saml.Assertion) error {
			// the application's own rule: every restriction must name ownAudience
			for _, ar := range as.Conditions.AudienceRestrictions {
				if ar.Audience.Value != ownAudience {
					return errors.New("not my audience")
				}
			}
			return nil
		}
	}
	var o spkit.Outcome
	switch c.Entry {
	case "post":
		o = spkit.ParsePOST(sp, forge.Bytes(el), outstanding, at)
	case "artifact":
		artStatus := []string{forge.StatusOK}
		if c.ArtStatus != "" {
			artStatus = statusCodes[c.ArtStatus]
		}
		artIssuer := forge.S(spkit.IDPEntity)
		if c.ArtIssuer != nil {
			artIssuer = valueAt(*c.ArtIssuer, spkit.IDPEntity, at)
		}
		env, err := forge.BuildArtifact(&forge.ArtifactSpec{ID: "id-art", InResponseTo: forge.S("id-artreq"), IssueInstant: forge.T(now), Issuer: artIssuer, Status: artStatus}, el)
		if err != nil {
			return pbt.Result{Err: "harness: " + err.Error()}
		}
		o = spkit.ParseArtifactXML(sp, forge.Bytes(env), outstanding, "id-artreq", at)
	default:
		o = spkit.ParseXML(sp, forge.Bytes(el), outstanding, at)
	}

	lastAccepted = o.Accepted()
	if c.perm {
		return pbt.Result{}
	}
	// ---- reference model
	res := pbt.Result{Classes: []string{"entry:" + c.Entry, "status:" + c.Status}}
	if c.Unsolicited {
		res.Classes = append(res.Classes, "unsolicited")
	}
	if c.Trust != "" {
		res.Classes = append(res.Classes, "sp-trust:"+c.Trust)
	}
	if c.Noise != 0 {
		res.Classes = append(res.Classes, "sp-unrelated-options-set")
	}
	if c.Warm {
		res.Classes = append(res.Classes, "sp-served-a-login-before")
	}
	if c.RespIssuerFormat != "" || c.AsrtIssuerFormat != "" {
		res.Classes = append(res.Classes, "issuer-format-not-entity")
	}
	for _, f := range append(append([]Field{c.RespIssuer, c.AsrtIssuer}, c.Recipients...), c.Audiences...) {
		if f.Class == "alt" && f.Kind == "received-at" && c.ReceivedAt != "acs" {
			res.Classes = append(res.Classes, "field-names-the-delivery-url")
			break
		}
	}
	var defects []string                     // reasons for must-reject
	dontCare := c.Unsolicited && !c.AllowIDP // without AllowIDPInitiated an unsolicited response is C04's to refuse
	nonCorrect, near := 0, 0
	note := func(f Field, counts bool) {
		if f.Class == "near" {
			near++
		}
		if counts && f.Class != "correct" {
			nonCorrect++
		}
	}
	// response issuer: when present must equal
	note(c.RespIssuer, c.RespIssuer.Class != "absent")
	if c.RespIssuer.Class != "correct" && c.RespIssuer.Class != "absent" {
		defects = append(defects, "response issuer "+c.RespIssuer.Class)
	}
	note(c.AsrtIssuer, true)
	if c.AsrtIssuer.Class != "correct" {
		defects = append(defects, "assertion issuer "+c.AsrtIssuer.Class)
	}
	for i, rf := range c.Recipients {
		note(rf, true)
		if rf.Class != "correct" {
			defects = append(defects, fmt.Sprintf("recipient[%d] %s", i, rf.Class))
		}
	}
	if len(c.Recipients) == 0 {
		dontCare = true // zero confirmations: the "every confirmation" clause is vacuous; not judged
		res.Classes = append(res.Classes, "no-confirmation")
	}
	// audiences
	present, equal := 0, 0
	for _, af := range c.Audiences {
		note(af, af.Class != "absent")
		if af.Class == "absent" {
			continue
		}
		present++
		if af.Class == "correct" {
			equal++
		}
	}
	switch c.Validator {
	case "accept":
		// the application's verdict replaces the rule: nothing to reject on
	case "reject":
		defects = append(defects, "custom validator rejects")
	default: // "" and "own": same shape of rule, different correct value
		if present > 0 && equal == 0 {
			defects = append(defects, "no audience names this SP")
		} else if present > 0 && equal < present {
			dontCare = true // mixed matching and non-matching audiences: property is silent
			res.Classes = append(res.Classes, "audience:mixed")
		}
	}
	if c.Validator != "" {
		res.Classes = append(res.Classes, "validator:"+c.Validator)
	}
	// the carrier of the artifact binding: its own status and issuer
	if c.Entry == "artifact" {
		if c.ArtStatus != "" && c.ArtStatus != "success" && c.ArtStatus != "success-nested" {
			defects = append(defects, "artifact response status "+c.ArtStatus)
			nonCorrect++
		}
		if c.ArtStatus == "success-nested" {
			dontCare = true
		}
		if c.ArtIssuer != nil && c.ArtIssuer.Class != "correct" && c.ArtIssuer.Class != "absent" {
			defects = append(defects, "artifact response issuer "+c.ArtIssuer.Class)
			nonCorrect++
		}
	}
	if c.ReqHook {
		res.Classes = append(res.Classes, "custom-request-id-validator")
	}
	// status
	if c.Status != "success" && c.Status != "success-nested" {
		defects = append(defects, "status "+c.Status)
		nonCorrect++
	}
	if c.Status == "success-nested" {
		dontCare = true // top-level Success with a second-level code: not addressed by the property
	}
	// destination
	note(c.Destination, c.Destination.Class != "absent")
	browserSigned := c.RespSigned && c.Entry != "artifact"
	switch c.Destination.Class {
	case "correct":
	case "absent":
		if browserSigned {
			defects = append(defects, "destination absent on a signed browser-delivered response")
		} else if c.RespSigned {
			dontCare = true // signed response inside an artifact response: not browser-delivered
		}
	case "empty":
		if browserSigned {
			defects = append(defects, "destination empty on a signed browser-delivered response")
		} else {
			dontCare = true // Destination="" on an unsigned response: property is silent
		}
	default:
		defects = append(defects, "destination "+c.Destination.Class)
	}

	res.NonTrivial = near >= 1 || nonCorrect >= 2 || c.NoEntityID || c.Validator != "" || c.ReceivedAt != "acs" || c.RespIssuerFormat != "" || c.AsrtIssuerFormat != ""
	if near > 0 {
		res.Classes = append(res.Classes, "near-miss")
	}
	if c.NoEntityID {
		res.Classes = append(res.Classes, "entity-id-fallback")
	}
	desc := func() string {
		return fmt.Sprintf("defects=%v; outcome: %s", defects, o.Describe())
	}
	if o.Panic != "" {
		res.Err = "panic: " + o.Panic
		return res
	}
	if len(c.Audiences) >= 2 && o.Panic == "" && !c.OneRestr {
		// whatever the reading of several audience restrictions (all must name the SP, or one of them), it does not
		// depend on their order.  (Several Audience elements inside ONE restriction are not permuted: the library's
		// schema type holds a single Audience per restriction and keeps the last one - see DESIGN section 6, observations.)
		acc := o.Accepted()
		c2 := c
		c2.perm = true
		c2.Audiences = nil
		for i := len(c.Audiences) - 1; i >= 0; i-- {
			c2.Audiences = append(c2.Audiences, c.Audiences[i])
		}
		_ = check(c2)
		res.Classes = append(res.Classes, "audience-order-permuted")
		if lastAccepted != acc {
			res.Err = fmt.Sprintf("the verdict depends on the order of the audiences: %v accepted=%v, reversed accepted=%v", c.Audiences, acc, lastAccepted)
			return res
		}
	}
	switch {
	case len(defects) > 0:
		res.Classes = append(res.Classes, "model:must-reject")
		if o.Accepted() {
			res.Err = "accepted although not addressed to this SP by its IdP: " + desc()
			return res
		}
		if len(defects) == 1 && strings.HasPrefix(defects[0], "status ") && !dontCare && c.ArtStatus == "" {
			var bad saml.ErrBadStatus
			pe := o.PrivateErr()
			if pe == nil || !errors.As(pe, &bad) {
				res.Err = "the only defect is a non-Success status but it is not reported as ErrBadStatus: " + desc()
				return res
			}
			want := ""
			if codes := statusCodes[c.Status]; len(codes) > 0 {
				want = codes[0]
			}
			if bad.Status != want {
				res.Err = fmt.Sprintf("ErrBadStatus carries %q, the response said %q", bad.Status, want)
			}
		}
	case dontCare:
		res.Classes = append(res.Classes, "model:dont-care")
	default:
		res.Classes = append(res.Classes, "model:must-accept")
		if !o.Accepted() {
			res.Err = "rejected although every addressing field is correct: " + desc()
		}
	}
	return res
}

// ---------------------------------------------------------------- generators

var nearKinds = xgen.NearMissKeys

var issuerFormats = []string{"", "-", "urn:oasis:names:tc:SAML:1.1:nameid-format:unspecified", "urn:oasis:names:tc:SAML:2.0:nameid-format:persistent", "urn:oasis:names:tc:SAML:2.0:nameid-format:transient", "urn:example:no-such-format", " "}

func genField(t *rapid.T, label string, allowAbsent bool) Field {
	classes := []string{"correct", "correct", "correct", "wrong", "near", "near", "alt", "empty"}
	if allowAbsent {
		classes = append(classes, "absent")
	}
	f := Field{Class: rapid.SampledFrom(classes).Draw(t, label)}
	if f.Class == "near" {
		f.Kind = rapid.SampledFrom(nearKinds).Draw(t, label+"kind")
	}
	if f.Class == "alt" {
		f.Kind = rapid.SampledFrom(altKinds).Draw(t, label+"alt")
	}
	return f
}

func gen(t *rapid.T) Case {
	c := Case{
		RespIssuer:  genField(t, "respIssuer", true),
		AsrtIssuer:  genField(t, "asrtIssuer", true),
		Destination: genField(t, "dest", true),
		Status:      rapid.SampledFrom([]string{"success", "success", "success", "success", "requester", "responder", "versionmismatch", "authnfailed", "nested", "nested-success", "success-nested", "near-success", "empty", "absent"}).Draw(t, "status"),
		RespSigned:  rapid.Bool().Draw(t, "respSigned"),
		AsrtSigned:  rapid.Bool().Draw(t, "asrtSigned"),
		NoEntityID:  rapid.IntRange(0, 3).Draw(t, "noEntity") == 0,
		Validator:   rapid.SampledFrom([]string{"", "", "", "accept", "reject", "own"}).Draw(t, "validator"),
		ReceivedAt:  rapid.SampledFrom([]string{"acs", "acs", "other", "acsquery", "relative", "relative-other"}).Draw(t, "at"),
		Entry:       rapid.SampledFrom([]string{"xml", "post", "artifact"}).Draw(t, "entry"),
		Encrypted:   rapid.IntRange(0, 4).Draw(t, "enc") == 0,
		AllowIDP:    rapid.IntRange(0, 3).Draw(t, "allowidp") == 0,
	}
	if rapid.IntRange(0, 2).Draw(t, "othertrust") == 0 {
		c.Trust = rapid.SampledFrom(spkit.TrustsIDP).Draw(t, "trust")
	}
	c.Warm = rapid.IntRange(0, 3).Draw(t, "warm") == 0
	if rapid.IntRange(0, 2).Draw(t, "noise?") == 0 {
		c.Noise = rapid.Uint64Range(1, 255).Draw(t, "noise")
	}
	c.ReqHook = rapid.IntRange(0, 4).Draw(t, "reqhook") == 0
	c.Unsolicited = c.AllowIDP && rapid.IntRange(0, 2).Draw(t, "unsolicited") == 0
	if c.Entry == "artifact" && rapid.IntRange(0, 2).Draw(t, "artcarrier") == 0 {
		c.ArtStatus = rapid.SampledFrom([]string{"requester", "responder", "versionmismatch", "nested-success", "near-success", "empty", "absent"}).Draw(t, "artstatus")
		if rapid.Bool().Draw(t, "artissuer?") {
			f := genField(t, "artissuer", true)
			c.ArtIssuer = &f
			c.ArtStatus = ""
		}
	}
	if rapid.IntRange(0, 2).Draw(t, "issuerformats") == 0 {
		c.RespIssuerFormat = rapid.SampledFrom(issuerFormats).Draw(t, "respIssuerFormat")
		c.AsrtIssuerFormat = rapid.SampledFrom(issuerFormats).Draw(t, "asrtIssuerFormat")
	}
	if c.ReceivedAt != "acs" && c.Destination.Class == "correct" {
		c.DestIsAt = rapid.Bool().Draw(t, "destIsAt")
	}
	nrec := rapid.SampledFrom([]int{1, 1, 1, 2, 3, 0}).Draw(t, "nrec")
	for i := 0; i < nrec; i++ {
		rf := genField(t, "recipient", true)
		if rapid.IntRange(0, 9).Draw(t, "bare") == 0 {
			rf = Field{Class: "nodata"} // the confirmation has no SubjectConfirmationData, hence no Recipient
		}
		c.Recipients = append(c.Recipients, rf)
		c.Methods = append(c.Methods, rapid.SampledFrom([]string{"", "", "", "hok", "sv"}).Draw(t, "method"))
	}
	naud := rapid.IntRange(0, 3).Draw(t, "naud")
	for i := 0; i < naud; i++ {
		c.Audiences = append(c.Audiences, genField(t, "audience", false))
	}
	c.OneRestr = naud > 1 && rapid.Bool().Draw(t, "oneRestr")
	// bias: most cases have at most two defective fields so that single faults dominate
	if rapid.IntRange(0, 2).Draw(t, "focus") != 0 {
		keep := rapid.IntRange(0, 5).Draw(t, "keep")
		ok := Field{Class: "correct"}
		if keep != 0 {
			c.RespIssuer = ok
		}
		if keep != 1 {
			c.AsrtIssuer = ok
		}
		if keep != 2 {
			c.Destination = ok
			c.DestIsAt = false
		}
		if keep != 3 {
			for i := range c.Recipients {
				c.Recipients[i] = ok
			}
		}
		if keep != 4 {
			for i := range c.Audiences {
				c.Audiences[i] = ok
			}
		}
		if keep != 5 {
			c.Status = "success"
		}
	}
	return c
}

// enumSingleFault: every class (and every near-miss kind) of every field as the only
// deviation from a fully correct response, crossed with signed/unsigned response,
// entity-ID fallback and entry point.
// enumDeliveredElsewhere: the message is delivered at a URL that is not the ACS URL; every addressing field in
// turn carries that URL (or, for the issuers, a wrong value under every Issuer Format); Destination names the ACS
// URL or the delivery URL.
func enumDeliveredElsewhere(_ string, emit func(Case)) {
	ok := Field{Class: "correct"}
	at := Field{Class: "alt", Kind: "received-at"}
	for _, entry := range []string{"xml", "post", "artifact"} {
		for _, where := range []string{"other", "acsquery", "relative", "relative-other"} {
			for _, destIsAt := range []bool{false, true} {
				for _, rs := range []bool{false, true} {
					base := Case{RespIssuer: ok, AsrtIssuer: ok, Recipients: []Field{ok}, Audiences: []Field{ok}, Destination: ok, DestIsAt: destIsAt, Status: "success", AsrtSigned: true, RespSigned: rs, ReceivedAt: where, Entry: entry}
					emit(base)
					c := base
					c.Recipients = []Field{at}
					emit(c)
					c = base
					c.Recipients = []Field{ok, at}
					emit(c)
					c = base
					c.Recipients = []Field{at, ok}
					c.Methods = []string{"hok", ""}
					emit(c)
					c = base
					c.Audiences = []Field{at}
					emit(c)
					c = base
					c.RespIssuer = at
					emit(c)
					c = base
					c.AsrtIssuer = at
					emit(c)
					if !destIsAt {
						for _, k := range []string{"same-path-other-host", "other-path-other-host"} {
							c = base
							c.Destination = Field{Class: "alt", Kind: k}
							emit(c)
							c = base
							c.Recipients = []Field{{Class: "alt", Kind: k}}
							emit(c)
						}
					}
				}
			}
		}
		for _, rs := range []bool{false, true} {
			for _, enc := range []bool{false, true} {
				for _, recs := range [][]Field{{{Class: "nodata"}}, {ok, {Class: "nodata"}}, {{Class: "nodata"}, ok}} {
					emit(Case{RespIssuer: ok, AsrtIssuer: ok, Recipients: recs, Audiences: []Field{ok}, Destination: ok, Status: "success", AsrtSigned: true, RespSigned: rs, Encrypted: enc, ReceivedAt: "acs", Entry: entry})
				}
			}
		}
		// the application's own request-ID validator is installed: every single addressing defect still counts
		for _, rs := range []bool{false, true} {
			base := Case{RespIssuer: ok, AsrtIssuer: ok, Recipients: []Field{ok}, Audiences: []Field{ok}, Destination: ok, Status: "success", AsrtSigned: true, RespSigned: rs, ReceivedAt: "acs", Entry: entry, ReqHook: true}
			emit(base)
			for _, bad := range []Field{{Class: "wrong"}, {Class: "empty"}, {Class: "near", Kind: nearKinds[0]}} {
				c := base
				c.RespIssuer = bad
				emit(c)
				c = base
				c.AsrtIssuer = bad
				emit(c)
				c = base
				c.Recipients = []Field{bad}
				emit(c)
				c = base
				c.Audiences = []Field{bad}
				emit(c)
				c = base
				c.Destination = bad
				emit(c)
			}
			for _, st := range statusNames() {
				c := base
				c.Status = st
				emit(c)
			}
		}
		// IdP-initiated: no InResponseTo anywhere, nothing outstanding, AllowIDPInitiated on - every single defect
		for _, rs := range []bool{false, true} {
			base := Case{RespIssuer: ok, AsrtIssuer: ok, Recipients: []Field{ok}, Audiences: []Field{ok}, Destination: ok, Status: "success", AsrtSigned: true, RespSigned: rs, ReceivedAt: "acs", Entry: entry, AllowIDP: true, Unsolicited: true}
			emit(base)
			for _, bad := range []Field{{Class: "wrong"}, {Class: "empty"}, {Class: "absent"}, {Class: "near", Kind: nearKinds[0]}} {
				c := base
				c.RespIssuer = bad
				emit(c)
				c = base
				c.AsrtIssuer = bad
				emit(c)
				c = base
				c.Recipients = []Field{bad}
				emit(c)
				c = base
				c.Audiences = []Field{bad}
				emit(c)
				c = base
				c.Destination = bad
				emit(c)
			}
			for _, st := range statusNames() {
				c := base
				c.Status = st
				emit(c)
			}
		}
		// several audiences, the SP's own at each position among others
		for _, one := range []bool{false, true} {
			for _, auds := range [][]Field{{ok, {Class: "wrong"}}, {{Class: "wrong"}, ok}, {{Class: "wrong"}, ok, {Class: "alt", Kind: "sp-acs"}}, {ok, ok}, {{Class: "wrong"}, {Class: "near", Kind: nearKinds[0]}}} {
				emit(Case{RespIssuer: ok, AsrtIssuer: ok, Recipients: []Field{ok}, Audiences: auds, OneRestr: one, Destination: ok, Status: "success", AsrtSigned: true, ReceivedAt: "acs", Entry: entry})
			}
		}
		if entry == "artifact" {
			for _, rs := range []bool{false, true} {
				for _, inner := range []string{"success", "requester"} {
					for _, st := range statusNames() {
						emit(Case{RespIssuer: ok, AsrtIssuer: ok, Recipients: []Field{ok}, Audiences: []Field{ok}, Destination: ok, Status: inner, AsrtSigned: true, RespSigned: rs, ReceivedAt: "acs", Entry: entry, ArtStatus: st})
					}
				}
				for _, bad := range []Field{{Class: "wrong"}, {Class: "empty"}, {Class: "absent"}, {Class: "alt", Kind: "sp-entity"}} {
					b := bad
					emit(Case{RespIssuer: ok, AsrtIssuer: ok, Recipients: []Field{ok}, Audiences: []Field{ok}, Destination: ok, Status: "success", AsrtSigned: true, RespSigned: rs, ReceivedAt: "acs", Entry: entry, ArtIssuer: &b})
				}
			}
		}
		for _, f := range issuerFormats {
			for _, wrong := range []Field{ok, {Class: "wrong"}, {Class: "alt", Kind: "sp-entity"}, {Class: "near", Kind: nearKinds[0]}, {Class: "empty"}} {
				for _, rs := range []bool{false, true} {
					base := Case{RespIssuer: ok, AsrtIssuer: ok, Recipients: []Field{ok}, Audiences: []Field{ok}, Destination: ok, Status: "success", AsrtSigned: true, RespSigned: rs, ReceivedAt: "acs", Entry: entry}
					c := base
					c.RespIssuer, c.RespIssuerFormat = wrong, f
					emit(c)
					c = base
					c.AsrtIssuer, c.AsrtIssuerFormat = wrong, f
					emit(c)
				}
			}
		}
	}
}

func enumSingleFault(_ string, emit func(Case)) {
	var fields []Field
	for _, cl := range []string{"correct", "wrong", "empty", "absent"} {
		fields = append(fields, Field{Class: cl})
	}
	for _, k := range nearKinds {
		fields = append(fields, Field{Class: "near", Kind: k})
	}
	for _, k := range altKinds {
		fields = append(fields, Field{Class: "alt", Kind: k})
	}
	ok := Field{Class: "correct"}
	base := func() Case {
		return Case{RespIssuer: ok, AsrtIssuer: ok, Recipients: []Field{ok}, Audiences: []Field{ok}, Destination: ok, Status: "success", AsrtSigned: true, ReceivedAt: "acs", Entry: "xml"}
	}
	for _, entry := range []string{"xml", "post", "artifact"} {
		for _, rs := range []bool{false, true} {
			for _, noEnt := range []bool{false, true} {
				for slot := 0; slot < 7; slot++ {
					for _, f := range fields {
						c := base()
						c.Entry, c.RespSigned, c.NoEntityID = entry, rs, noEnt
						c.AllowIDP = rs != noEnt // half of the grid with IdP-initiated login allowed
						switch slot {
						case 0:
							c.RespIssuer = f
						case 1:
							c.AsrtIssuer = f
						case 2:
							c.Recipients = []Field{f}
						case 3:
							c.Recipients = []Field{ok, f}
							c.Methods = []string{"", []string{"hok", "sv", ""}[len(f.Kind)%3]}
						case 4:
							if f.Class == "absent" {
								c.Audiences = nil
							} else {
								c.Audiences = []Field{f}
							}
						case 5:
							c.Destination = f
						case 6:
							if f.Class == "absent" {
								continue
							}
							c.Audiences = []Field{f, f}
							c.OneRestr = true
						}
						emit(c)
					}
				}
				for _, st := range statusNames() {
					_ = st
				}
				for _, st := range []string{"success", "requester", "responder", "versionmismatch", "authnfailed", "nested", "nested-success", "success-nested", "near-success", "empty", "absent"} {
					c := base()
					c.Entry, c.RespSigned, c.NoEntityID, c.Status = entry, rs, noEnt, st
					emit(c)
				}
			}
		}
	}
}

var prop = &pbt.Prop[Case]{
	ID: "C03",
	Rule: "cases: a genuinely IdP-signed response whose Response Issuer, Assertion Issuer, each confirmation Recipient, 0-3 audiences, Destination and StatusCode are each drawn from {correct, wrong, near-miss (11 kinds), another identifier of the same deployment (SP metadata URL / entity ID / ACS / SLO, IdP SSO URL / entity ID, the URL the message was delivered at), empty, absent}, Issuer Format attributes in {entity, none, unspecified, persistent, transient, unknown, blank}, " +
		"crossed with signed/unsigned Response, entity-ID set/unset, custom audience validator {none, accept, reject, own value}, received-at URL {ACS, other, ACS+query} and entry point {XML, POST, artifact}; " +
		"exhaustive single-fault enumeration of every class and near-miss kind in every slot plus rapid full combinations. " +
		"oracle: executable restatement of the property, three-valued (mixed audiences, zero confirmations, Destination=\"\" on unsigned responses, signed responses inside artifact responses: don't-care). " +
		"non-trivial: >= 1 near-miss, or >= 2 non-correct fields, or entity-ID fallback / custom validator / received-at URL != ACS / a non-entity Issuer Format in play. distinct: sha256 of the JSON case.",
	Gen:         gen,
	Check:       check,
	Reset:       fix.Reset,
	Enums:       []pbt.Enum[Case]{{Name: "single-fault-grid", Each: enumSingleFault}, {Name: "delivered-elsewhere-and-issuer-formats", Each: enumDeliveredElsewhere}},
	Assumptions: []string{"instants, InResponseTo and signatures are valid in every case so that acceptance hinges on the addressing fields alone"},
}

func TestCheck(t *testing.T) { pbt.Run(t, prop) }

func FuzzCheck(f *testing.F) { pbt.Fuzz(f, prop) }
